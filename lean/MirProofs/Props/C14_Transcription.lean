import MirProofs.Lemmas.C14Transcription
/-!
  C14 (transcription part) — "valid annotations are always scored; malformed ones are rejected cleanly",
  at the level of the task functions of `mir_eval.transcription` and `mir_eval.transcription_velocity`
  (model: `MirModel/Transcription.lean`).

  For every modelled function `f`
  * `f_total`  — on inputs that satisfy the documented convention (written out as an explicit predicate, as weak as
    the code needs) `f` returns a value;
  * `f_errors` — on **any** input the result is a value or a `ValueError`; no `IndexError`, `ZeroDivisionError`,
    `TypeError`, `KeyError` or other exception can come out;
  * `f_ok_iff` (where it holds) — the function returns a value exactly on the valid inputs, so `f_errors` says that
    every invalid input is rejected with `ValueError`.
  Two functions do not validate their arguments and the full-strength `f_errors` is false of them
  (`average_overlap_ratio` with a pairing that points outside the intervals, `transcription_velocity.match_notes`
  with a velocity array shorter than the notes: `IndexError`).  For these the full statement is kept as
  `…_errors_full_statement`, refuted by a concrete witness, and the exact trichotomy is proved as `…_errors_partial`.

  Every statement is for all inputs: any number of notes (including none), any parameters, any `beta`.
  The key facts are that the transliterated Hopcroft–Karp matcher always passes its certificate check
  (`HK.pyMatching_eq`) and that a valid matching of a feasibility graph only mentions indices inside the two lists
  (`mem_hitGraph`), so the index lookups of the Average Overlap Ratio and of the velocity regression cannot fail
  after validation.
-/
namespace Mir.C14.Transcription
open Mir.Transcription

/-! ## the conventions -/

/-- `ValidI iv` (used throughout): every entry is non-negative and every interval has positive duration -/
theorem validI_iff (iv : List Ival) : ValidI iv ↔ ∀ x ∈ iv, 0 ≤ x.1 ∧ 0 ≤ x.2 ∧ x.1 < x.2 := by
  constructor
  · intro h x hx
    obtain ⟨a, b⟩ := h x hx
    exact ⟨a, by linarith, b⟩
  · intro h x hx
    exact ⟨(h x hx).1, (h x hx).2.2⟩

/-! ## transcription.validate_intervals -/

theorem validateIntervals_total {refI estI : List Ival} (hr : ValidI refI) (he : ValidI estI) :
    ∃ v, validateIntervals refI estI = .ok v :=
  ⟨(), validateIntervals_of_valid hr he⟩

theorem validateIntervals_errors (refI estI : List Ival) :
    (∃ v, validateIntervals refI estI = .ok v) ∨ validateIntervals refI estI = .error .valueError :=
  validateIntervals_okVE refI estI

theorem validateIntervals_ok_iff (refI estI : List Ival) :
    validateIntervals refI estI = .ok () ↔ ValidI refI ∧ ValidI estI :=
  ⟨validateIntervals_ok, fun h => validateIntervals_of_valid h.1 h.2⟩

/-- every malformed pair of interval arrays is rejected with `ValueError` -/
theorem validateIntervals_rejects {refI estI : List Ival} (h : ¬ (ValidI refI ∧ ValidI estI)) :
    validateIntervals refI estI = .error .valueError := by
  rcases validateIntervals_okVE refI estI with ⟨⟨⟩, hv⟩ | hv
  · exact absurd ((validateIntervals_ok_iff ..).1 hv) h
  · exact hv

example : ∃ v, validateIntervals [(0, 1), (1 / 2, 3)] [] = .ok v :=
  validateIntervals_total (by decide +kernel) (by decide +kernel)
example : validateIntervals [(0, 1)] [(1, 1)] = .error .valueError := by decide +kernel
example : validateIntervals [(-1, 1)] [] = .error .valueError := by decide +kernel

/-! ## transcription.validate -/

theorem validate_total {refI estI : List Ival} {refP estP : List (Option Rat)}
    (h : ValidNotes refI refP estI estP) : ∃ v, validate refI refP estI estP = .ok v :=
  ⟨(), validate_of_valid h⟩

theorem validate_errors (refI : List Ival) (refP : List (Option Rat)) (estI : List Ival)
    (estP : List (Option Rat)) :
    (∃ v, validate refI refP estI estP = .ok v) ∨ validate refI refP estI estP = .error .valueError :=
  validate_okVE refI refP estI estP

theorem validate_ok_iff (refI : List Ival) (refP : List (Option Rat)) (estI : List Ival)
    (estP : List (Option Rat)) : validate refI refP estI estP = .ok () ↔ ValidNotes refI refP estI estP :=
  Mir.Transcription.validate_ok_iff refI refP estI estP

/-- every malformed annotation pair (bad interval, length mismatch, non-positive frequency) is rejected with
    `ValueError` -/
theorem validate_rejects {refI estI : List Ival} {refP estP : List (Option Rat)}
    (h : ¬ ValidNotes refI refP estI estP) : validate refI refP estI estP = .error .valueError := by
  rcases validate_okVE refI refP estI estP with ⟨⟨⟩, hv⟩ | hv
  · exact absurd (validate_valid hv) h
  · exact hv

example : ∃ v, validate [(0, 1)] [some 60] [] [] = .ok v :=
  validate_total ⟨by decide +kernel, by decide +kernel, rfl, rfl, by decide, by decide⟩
example : validate [(0, 1)] [none] [] [] = .error .valueError := by decide +kernel
example : validate [(0, 1)] [] [] [] = .error .valueError := by decide +kernel

/-! ## transcription.match_note_onsets — needs nothing -/

theorem matchNoteOnsets_total (refI estI : List Ival) (tol : Rat) (strict : Bool) :
    ∃ v, matchNoteOnsets refI estI tol strict = .ok v :=
  pyMatching_total _

theorem matchNoteOnsets_errors (refI estI : List Ival) (tol : Rat) (strict : Bool) :
    (∃ v, matchNoteOnsets refI estI tol strict = .ok v) ∨
      matchNoteOnsets refI estI tol strict = .error .valueError :=
  Or.inl (matchNoteOnsets_total refI estI tol strict)

example : matchNoteOnsets [(0, 1), (2, 1)] [(2, 0), (0, 5)] (1 / 20) false = .ok [(0, 1), (1, 0)] := by
  unfold matchNoteOnsets; rw [HK.pyMatching_eq]; decide +kernel

/-! ## transcription.match_note_offsets — the reference intervals are validated by `intervals_to_durations` -/

theorem matchNoteOffsets_total {refI : List Ival} (estI : List Ival) (ratio minTol : Rat) (strict : Bool)
    (hr : ValidI refI) : ∃ v, matchNoteOffsets refI estI ratio minTol strict = .ok v := by
  obtain ⟨m, hm⟩ := pyMatching_total (hitGraph (offsetHit ratio minTol strict) refI estI)
  exact ⟨m, by unfold matchNoteOffsets; rw [validateIntervals1_of_valid hr]; exact hm⟩

theorem matchNoteOffsets_errors (refI estI : List Ival) (ratio minTol : Rat) (strict : Bool) :
    (∃ v, matchNoteOffsets refI estI ratio minTol strict = .ok v) ∨
      matchNoteOffsets refI estI ratio minTol strict = .error .valueError := by
  unfold matchNoteOffsets
  exact okVE_bind (validateIntervals1_okVE refI) fun _ _ => Or.inl (pyMatching_total _)

theorem matchNoteOffsets_ok_iff (refI estI : List Ival) (ratio minTol : Rat) (strict : Bool) :
    (∃ v, matchNoteOffsets refI estI ratio minTol strict = .ok v) ↔ ValidI refI := by
  refine ⟨?_, matchNoteOffsets_total estI ratio minTol strict⟩
  rintro ⟨v, hv⟩
  unfold matchNoteOffsets at hv
  cases h1 : validateIntervals1 refI with
  | error e => rw [h1] at hv; cases hv
  | ok u => exact validateIntervals1_ok h1

example : ∃ v, matchNoteOffsets [(0, 1)] [(5, 1), (-3, -7)] (1 / 5) (1 / 20) false = .ok v :=
  matchNoteOffsets_total _ _ _ _ (by decide +kernel)
example : matchNoteOffsets [(1, 0)] [] (1 / 5) (1 / 20) false = .error .valueError := by decide +kernel

/-! ## transcription.match_notes — the reference intervals are validated only when `offset_ratio is not None` -/

theorem matchNotes_total {refI : List Ival} (refP : List Rat) (estI : List Ival) (estP : List Rat) {p : Params}
    (hr : p.offsetRatio.isSome = true → ValidI refI) : ∃ v, matchNotes refI refP estI estP p = .ok v := by
  obtain ⟨m, hm⟩ := pyMatching_total (hitGraph (noteHit p) (refI.zip refP) (estI.zip estP))
  exact ⟨m, by unfold matchNotes; rw [durationsCheck_of_valid hr]; exact hm⟩

theorem matchNotes_errors (refI : List Ival) (refP : List Rat) (estI : List Ival) (estP : List Rat) (p : Params) :
    (∃ v, matchNotes refI refP estI estP p = .ok v) ∨ matchNotes refI refP estI estP p = .error .valueError := by
  unfold matchNotes
  exact okVE_bind (durationsCheck_okVE p refI) fun _ _ => Or.inl (pyMatching_total _)

theorem matchNotes_ok_iff (refI : List Ival) (refP : List Rat) (estI : List Ival) (estP : List Rat) (p : Params) :
    (∃ v, matchNotes refI refP estI estP p = .ok v) ↔ (p.offsetRatio.isSome = true → ValidI refI) := by
  refine ⟨?_, matchNotes_total refP estI estP⟩
  rintro ⟨v, hv⟩
  unfold matchNotes at hv
  cases h1 : durationsCheck p refI with
  | error e => rw [h1] at hv; cases hv
  | ok u => exact durationsCheck_ok h1

/-- whatever `match_notes` returns only mentions notes that exist -/
theorem matchNotes_indices_in_range {refI estI : List Ival} {refP estP : List Rat} {p : Params} {M : List Edge}
    (h : matchNotes refI refP estI estP p = .ok M) :
    ∀ e ∈ M, e.1 < refI.length ∧ e.1 < refP.length ∧ e.2 < estI.length ∧ e.2 < estP.length := by
  intro e he
  have := matchNotes_inRange h e he
  omega

example : ∃ v, matchNotes [(1, 0)] [60] [(5, 1)] [61] { offsetRatio := none } = .ok v :=
  matchNotes_total _ _ _ (by simp)
example : matchNotes [(1, 0)] [60] [(5, 1)] [61] {} = .error .valueError := by decide +kernel

/-! ## transcription.average_overlap_ratio — does not validate the pairing it is given -/

theorem averageOverlapRatio_total {refI estI : List Ival} {m : List Edge}
    (h : ∀ e ∈ m, e.1 < refI.length ∧ e.2 < estI.length) : ∃ v, averageOverlapRatio refI estI m = .ok v :=
  averageOverlapRatio_of_inRange h

def averageOverlapRatio_errors_full_statement : Prop :=
  ∀ (refI estI : List Ival) (m : List Edge),
    (∃ v, averageOverlapRatio refI estI m = .ok v) ∨ averageOverlapRatio refI estI m = .error .valueError

/-- a pairing that mentions note 0 of an empty annotation: `IndexError` -/
theorem averageOverlapRatio_errors_full_statement_false : ¬ averageOverlapRatio_errors_full_statement := by
  intro h
  have h0 : averageOverlapRatio [] [] [(0, 0)] = .error .indexError := rfl
  rcases h [] [] [(0, 0)] with ⟨v, hv⟩ | hv <;> · rw [h0] at hv; cases hv

/-- the exact behaviour: a value when every index is in range, `IndexError` otherwise; nothing else -/
theorem averageOverlapRatio_errors_partial (refI estI : List Ival) (m : List Edge) :
    ((∃ v, averageOverlapRatio refI estI m = .ok v) ∧ ∀ e ∈ m, e.1 < refI.length ∧ e.2 < estI.length) ∨
      (averageOverlapRatio refI estI m = .error .indexError ∧
        ∃ e ∈ m, refI.length ≤ e.1 ∨ estI.length ≤ e.2) := by
  rcases averageOverlapRatio_cases refI estI m with hok | ⟨herr, hnr⟩
  · exact Or.inl hok
  · right
    refine ⟨herr, ?_⟩
    by_contra hc
    apply hnr
    intro e he
    by_contra hlt
    exact hc ⟨e, he, by omega⟩

theorem averageOverlapRatio_ok_iff (refI estI : List Ival) (m : List Edge) :
    (∃ v, averageOverlapRatio refI estI m = .ok v) ↔ ∀ e ∈ m, e.1 < refI.length ∧ e.2 < estI.length := by
  refine ⟨fun hok => ?_, averageOverlapRatio_total⟩
  rcases averageOverlapRatio_errors_partial refI estI m with ⟨_, h⟩ | ⟨herr, _⟩
  · exact h
  · obtain ⟨v, hv⟩ := hok; rw [hv] at herr; cases herr

/-- with an in-range pairing the contents of the interval arrays are irrelevant to totality: a zero-length union
    raises nothing (the real code divides NumPy floats and returns `nan`; the value `0` of the model's total
    division there is outside the modelled domain, see `aorDomain`) -/
example : averageOverlapRatio [(0, 0)] [(0, 0)] [(0, 0)] = .ok 0 := by decide +kernel
example : averageOverlapRatio [(0, 2)] [(1, 3)] [(0, 0)] = .ok (1 / 3) := by decide +kernel
example : averageOverlapRatio [(0, 2)] [(1, 3)] [(0, 1)] = .error .indexError := by decide +kernel

/-! ## transcription.precision_recall_f1_overlap -/

theorem precisionRecallF1Overlap_total {refI estI : List Ival} {refP estP : List Rat} (p : Params) (beta : Rat)
    (h : ValidNotesR refI refP estI estP) : ∃ v, precisionRecallF1Overlap refI refP estI estP p beta = .ok v := by
  have hv := (validateR_ok_iff ..).2 h
  obtain ⟨m, hm⟩ := matchNotes_total (refI := refI) refP estI estP (p := p) fun _ => h.refIntervals
  obtain ⟨a, ha⟩ := averageOverlapRatio_of_inRange
    ((matchNotes_inRange hm).mono (Nat.min_le_left _ _) (Nat.min_le_left _ _))
  unfold precisionRecallF1Overlap
  simp only [hv, hm, ha, bind, Except.bind, pure, Except.pure]
  split <;> exact ⟨_, rfl⟩

theorem precisionRecallF1Overlap_errors (refI : List Ival) (refP : List Rat) (estI : List Ival) (estP : List Rat)
    (p : Params) (beta : Rat) :
    (∃ v, precisionRecallF1Overlap refI refP estI estP p beta = .ok v) ∨
      precisionRecallF1Overlap refI refP estI estP p beta = .error .valueError :=
  okVE_of_validator (validate_okVE refI (refP.map some) estI (estP.map some))
    (fun hv => precisionRecallF1Overlap_total p beta ((validateR_ok_iff ..).1 hv))
    (fun hv => by unfold precisionRecallF1Overlap; exact bind_ve _ hv)

theorem precisionRecallF1Overlap_ok_iff (refI : List Ival) (refP : List Rat) (estI : List Ival) (estP : List Rat)
    (p : Params) (beta : Rat) :
    (∃ v, precisionRecallF1Overlap refI refP estI estP p beta = .ok v) ↔ ValidNotesR refI refP estI estP :=
  ⟨fun ⟨_, hv⟩ => (validateR_ok_iff ..).1 (precisionRecallF1Overlap_ok hv).1, precisionRecallF1Overlap_total p beta⟩

example : ∃ v, precisionRecallF1Overlap [(0, 1), (1, 2)] [60, 62] [(0, 1)] [60] {} 1 = .ok v :=
  precisionRecallF1Overlap_total _ _ ⟨by decide +kernel, by decide +kernel, rfl, rfl⟩
/-- empty estimate: scored, all zero -/
example : precisionRecallF1Overlap [(0, 1)] [60] [] [] {} 1 = .ok (0, 0, 0, 0) := by decide +kernel
example : precisionRecallF1Overlap [(0, 1)] [60] [(0, 1)] [60] {} 1 = .ok (1, 1, 1, 1) := by
  unfold precisionRecallF1Overlap matchNotes; simp only [HK.pyMatching_eq]; decide +kernel
example : precisionRecallF1Overlap [(0, 1)] [60, 61] [] [] {} 1 = .error .valueError := by decide +kernel

/-! ## transcription.onset_precision_recall_f1 / offset_precision_recall_f1 -/

theorem onsetPRF_total {refI estI : List Ival} (tol : Rat) (strict : Bool) (beta : Rat)
    (hr : ValidI refI) (he : ValidI estI) : ∃ v, onsetPRF refI estI tol strict beta = .ok v := by
  have hv := validateIntervals_of_valid hr he
  obtain ⟨m, hm⟩ := matchNoteOnsets_total refI estI tol strict
  unfold onsetPRF
  simp only [hv, hm, bind, Except.bind, pure, Except.pure]
  split <;> exact ⟨_, rfl⟩

theorem onsetPRF_errors (refI estI : List Ival) (tol : Rat) (strict : Bool) (beta : Rat) :
    (∃ v, onsetPRF refI estI tol strict beta = .ok v) ∨ onsetPRF refI estI tol strict beta = .error .valueError :=
  okVE_of_validator (validateIntervals_okVE refI estI)
    (fun hv => onsetPRF_total tol strict beta (validateIntervals_ok hv).1 (validateIntervals_ok hv).2)
    (fun hv => by unfold onsetPRF; exact bind_ve _ hv)

theorem onsetPRF_ok_iff (refI estI : List Ival) (tol : Rat) (strict : Bool) (beta : Rat) :
    (∃ v, onsetPRF refI estI tol strict beta = .ok v) ↔ ValidI refI ∧ ValidI estI :=
  ⟨fun ⟨_, hv⟩ => validateIntervals_ok (onsetPRF_ok hv).1, fun h => onsetPRF_total tol strict beta h.1 h.2⟩

theorem offsetPRF_total {refI estI : List Ival} (ratio minTol : Rat) (strict : Bool) (beta : Rat)
    (hr : ValidI refI) (he : ValidI estI) : ∃ v, offsetPRF refI estI ratio minTol strict beta = .ok v := by
  have hv := validateIntervals_of_valid hr he
  obtain ⟨m, hm⟩ := matchNoteOffsets_total estI ratio minTol strict hr
  unfold offsetPRF
  simp only [hv, hm, bind, Except.bind, pure, Except.pure]
  split <;> exact ⟨_, rfl⟩

theorem offsetPRF_errors (refI estI : List Ival) (ratio minTol : Rat) (strict : Bool) (beta : Rat) :
    (∃ v, offsetPRF refI estI ratio minTol strict beta = .ok v) ∨
      offsetPRF refI estI ratio minTol strict beta = .error .valueError :=
  okVE_of_validator (validateIntervals_okVE refI estI)
    (fun hv => offsetPRF_total ratio minTol strict beta (validateIntervals_ok hv).1 (validateIntervals_ok hv).2)
    (fun hv => by unfold offsetPRF; exact bind_ve _ hv)

theorem offsetPRF_ok_iff (refI estI : List Ival) (ratio minTol : Rat) (strict : Bool) (beta : Rat) :
    (∃ v, offsetPRF refI estI ratio minTol strict beta = .ok v) ↔ ValidI refI ∧ ValidI estI :=
  ⟨fun ⟨_, hv⟩ => validateIntervals_ok (offsetPRF_ok hv).1, fun h => offsetPRF_total ratio minTol strict beta h.1 h.2⟩

example : onsetPRF [(0, 1)] [] (1 / 20) false 1 = .ok (0, 0, 0) := by decide +kernel
example : onsetPRF [(0, 1), (1, 2)] [(0, 2)] (1 / 20) false 1 = .ok (1, 1 / 2, 2 / 3) := by
  unfold onsetPRF matchNoteOnsets; simp only [HK.pyMatching_eq]; decide +kernel
example : offsetPRF [(0, 1), (1, 2)] [(0, 3)] (1 / 5) (1 / 20) false 1 = .ok (0, 0, 0) := by
  unfold offsetPRF matchNoteOffsets; simp only [HK.pyMatching_eq]; decide +kernel
example : offsetPRF [(0, 1)] [(2, 2)] (1 / 5) (1 / 20) false 1 = .error .valueError := by decide +kernel

/-! ## transcription.evaluate -/

theorem evaluate_total {refI estI : List Ival} {refP estP : List Rat} (p : Params) (beta : Rat)
    (h : ValidNotesR refI refP estI estP) : ∃ v, evaluate refI refP estI estP p beta = .ok v := by
  obtain ⟨ot, pt, ρ, mt, st⟩ := p
  obtain ⟨s0, h0⟩ := precisionRecallF1Overlap_total ⟨ot, pt, none, mt, st⟩ beta h
  obtain ⟨o, ho⟩ := onsetPRF_total ot st beta h.refIntervals h.estIntervals
  cases ρ with
  | none =>
    simp only [evaluate, h0, ho, bind, Except.bind, pure, Except.pure]
    exact ⟨_, rfl⟩
  | some ρ =>
    obtain ⟨s1, h1⟩ := precisionRecallF1Overlap_total ⟨ot, pt, some ρ, mt, st⟩ beta h
    obtain ⟨f, hf⟩ := offsetPRF_total ρ mt st beta h.refIntervals h.estIntervals
    simp only [evaluate, h0, h1, ho, hf, bind, Except.bind, pure, Except.pure]
    exact ⟨_, rfl⟩

theorem evaluate_errors (refI : List Ival) (refP : List Rat) (estI : List Ival) (estP : List Rat)
    (p : Params) (beta : Rat) :
    (∃ v, evaluate refI refP estI estP p beta = .ok v) ∨ evaluate refI refP estI estP p beta = .error .valueError := by
  refine okVE_of_validator (validate_okVE refI (refP.map some) estI (estP.map some))
    (fun hv => evaluate_total p beta ((validateR_ok_iff ..).1 hv)) (fun hv => ?_)
  have e : ∀ q : Params, precisionRecallF1Overlap refI refP estI estP q beta = .error .valueError :=
    fun q => by unfold precisionRecallF1Overlap; exact bind_ve _ hv
  obtain ⟨ot, pt, ρ, mt, st⟩ := p
  cases ρ <;> simp only [evaluate, e, bind, Except.bind, pure, Except.pure]

theorem evaluate_ok_iff (refI : List Ival) (refP : List Rat) (estI : List Ival) (estP : List Rat)
    (p : Params) (beta : Rat) :
    (∃ v, evaluate refI refP estI estP p beta = .ok v) ↔ ValidNotesR refI refP estI estP := by
  refine ⟨fun hok => ?_, evaluate_total p beta⟩
  by_contra hn
  have hv : validate refI (refP.map some) estI (estP.map some) = .error .valueError := by
    rcases validate_okVE refI (refP.map some) estI (estP.map some) with ⟨⟨⟩, hv⟩ | hv
    · exact absurd ((validateR_ok_iff ..).1 hv) hn
    · exact hv
  have e : ∀ q : Params, precisionRecallF1Overlap refI refP estI estP q beta = .error .valueError :=
    fun q => by unfold precisionRecallF1Overlap; exact bind_ve _ hv
  obtain ⟨v, hok⟩ := hok
  obtain ⟨ot, pt, ρ, mt, st⟩ := p
  cases ρ <;> simp only [evaluate, e, bind, Except.bind, pure, Except.pure] at hok <;> cases hok

example : ∃ v, evaluate [(0, 1), (1, 2)] [60, 62] [(0, 1)] [60] {} 1 = .ok v :=
  evaluate_total _ _ ⟨by decide +kernel, by decide +kernel, rfl, rfl⟩
example : ∃ v, evaluate [(0, 1), (1, 2)] [60, 62] [] [] { offsetRatio := none } 1 = .ok v :=
  evaluate_total _ _ ⟨by decide +kernel, by decide +kernel, rfl, rfl⟩
example : evaluate [(0, 1)] [60] [(0, 0)] [60] {} 1 = .error .valueError := by decide +kernel

/-! ## transcription_velocity.validate -/

theorem velValidate_total {refI estI : List Ival} {refP estP : List (Option Rat)} {refV estV : List Rat}
    (h : ValidVelNotes refI refP refV estI estP estV) : ∃ v, velValidate refI refP refV estI estP estV = .ok v :=
  ⟨(), velValidate_of_valid h⟩

theorem velValidate_errors (refI : List Ival) (refP : List (Option Rat)) (refV : List Rat) (estI : List Ival)
    (estP : List (Option Rat)) (estV : List Rat) :
    (∃ v, velValidate refI refP refV estI estP estV = .ok v) ∨
      velValidate refI refP refV estI estP estV = .error .valueError :=
  velValidate_okVE refI refP refV estI estP estV

theorem velValidate_ok_iff (refI : List Ival) (refP : List (Option Rat)) (refV : List Rat) (estI : List Ival)
    (estP : List (Option Rat)) (estV : List Rat) :
    velValidate refI refP refV estI estP estV = .ok () ↔ ValidVelNotes refI refP refV estI estP estV :=
  Mir.Transcription.velValidate_ok_iff refI refP refV estI estP estV

theorem velValidate_rejects {refI estI : List Ival} {refP estP : List (Option Rat)} {refV estV : List Rat}
    (h : ¬ ValidVelNotes refI refP refV estI estP estV) :
    velValidate refI refP refV estI estP estV = .error .valueError := by
  rcases velValidate_okVE refI refP refV estI estP estV with ⟨⟨⟩, hv⟩ | hv
  · exact absurd (velValidate_valid hv) h
  · exact hv

example : ∃ v, velValidate [(0, 1)] [some 60] [0] [] [] [] = .ok v :=
  velValidate_total ⟨⟨by decide +kernel, by decide +kernel, rfl, rfl, by decide, by decide⟩, rfl, rfl,
    by decide +kernel, by decide +kernel⟩
example : velValidate [(0, 1)] [some 60] [-1] [] [] [] = .error .valueError := by decide +kernel
example : velValidate [(0, 1)] [some 60] [] [] [] [] = .error .valueError := by decide +kernel

/-! ## transcription_velocity.match_notes — does not validate the velocity arrays -/

/-- what `transcription_velocity.match_notes` needs: reference intervals valid when offsets are used, at least one
    reference velocity (`np.min`), and a velocity for every note that can be matched -/
structure VelMatchDomain (refI : List Ival) (refP refV : List Rat) (estI : List Ival) (estP estV : List Rat)
    (p : Params) : Prop where
  durations : p.offsetRatio.isSome = true → ValidI refI
  refNonempty : refV ≠ []
  refLong : min refI.length refP.length ≤ refV.length
  estLong : min estI.length estP.length ≤ estV.length

theorem velMatchNotes_total {refI estI : List Ival} {refP refV estP estV : List Rat} {p : Params} (velTol : Rat)
    (h : VelMatchDomain refI refP refV estI estP estV p) :
    ∃ v, velMatchNotes refI refP refV estI estP estV p velTol = .ok v := by
  obtain ⟨m, hm⟩ := matchNotes_total (refI := refI) refP estI estP (p := p) h.durations
  obtain ⟨refVn, hn, hlen⟩ := normVelocities_of_ne_nil h.refNonempty
  obtain ⟨m', hk, _⟩ := velKeep_of_inRange (velTol := velTol) (estV := estV)
    ((matchNotes_inRange hm).mono (hlen ▸ h.refLong) h.estLong)
  unfold velMatchNotes
  simp only [hm, hn, hk, bind, Except.bind, pure, Except.pure]
  split <;> exact ⟨_, rfl⟩

def velMatchNotes_errors_full_statement : Prop :=
  ∀ (refI : List Ival) (refP refV : List Rat) (estI : List Ival) (estP estV : List Rat) (p : Params)
    (velTol : Rat),
    (∃ v, velMatchNotes refI refP refV estI estP estV p velTol = .ok v) ∨
      velMatchNotes refI refP refV estI estP estV p velTol = .error .valueError

/-- one matched note pair, no estimated velocity: `IndexError` -/
theorem velMatchNotes_errors_full_statement_false : ¬ velMatchNotes_errors_full_statement := by
  intro h
  have h0 : velMatchNotes [(0, 1)] [60] [1] [(0, 1)] [60] [] {} (1 / 10) = .error .indexError := by
    unfold velMatchNotes matchNotes; simp only [HK.pyMatching_eq]; decide +kernel
  rcases h [(0, 1)] [60] [1] [(0, 1)] [60] [] {} (1 / 10) with ⟨v, hv⟩ | hv <;> · rw [h0] at hv; cases hv

/-- the exact behaviour: a value, or `ValueError` (invalid reference intervals with offsets in use, or no
    reference velocity), or `IndexError` — the last only when a velocity array is shorter than the notes -/
theorem velMatchNotes_errors_partial (refI : List Ival) (refP refV : List Rat) (estI : List Ival)
    (estP estV : List Rat) (p : Params) (velTol : Rat) :
    (∃ v, velMatchNotes refI refP refV estI estP estV p velTol = .ok v) ∨
    (velMatchNotes refI refP refV estI estP estV p velTol = .error .valueError ∧
      ((p.offsetRatio.isSome = true ∧ ¬ ValidI refI) ∨ refV = [])) ∨
    (velMatchNotes refI refP refV estI estP estV p velTol = .error .indexError ∧
      (refV.length < min refI.length refP.length ∨ estV.length < min estI.length estP.length)) := by
  rcases matchNotes_errors refI refP estI estP p with ⟨m, hm⟩ | hm
  · cases refV with
    | nil =>
      right; left
      refine ⟨?_, Or.inr rfl⟩
      unfold velMatchNotes
      simp only [hm, normVelocities_nil, bind, Except.bind]
    | cons v vs =>
      obtain ⟨refVn, hn, hlen⟩ := normVelocities_cons v vs
      by_cases hemp : m.isEmpty = true
      · left
        unfold velMatchNotes
        simp only [hm, hn, hemp, bind, Except.bind, pure, Except.pure, if_true]
        exact ⟨_, rfl⟩
      · simp only [Bool.not_eq_true] at hemp
        rcases velKeep_cases refVn estV velTol m with ⟨m', hk⟩ | ⟨hk, hnr⟩
        · left
          unfold velMatchNotes
          simp only [hm, hn, hemp, hk, bind, Except.bind, Bool.false_eq_true, if_false]
          exact ⟨_, rfl⟩
        · right; right
          constructor
          · unfold velMatchNotes
            simp only [hm, hn, hemp, hk, bind, Except.bind, Bool.false_eq_true, if_false]
          · by_contra hc
            apply hnr
            refine (matchNotes_inRange hm).mono ?_ ?_
            · rw [hlen]; omega
            · omega
  · right; left
    constructor
    · unfold velMatchNotes; exact bind_ve _ hm
    · left
      by_contra hc
      obtain ⟨w, hw⟩ := matchNotes_total (refI := refI) refP estI estP (p := p) fun hs => by
        by_contra hv; exact hc ⟨hs, hv⟩
      rw [hw] at hm; cases hm

/-- with a velocity for every note the only exception is `ValueError` -/
theorem velMatchNotes_errors_of_lengths {refI estI : List Ival} {refP refV estP estV : List Rat} (p : Params)
    (velTol : Rat) (hr : min refI.length refP.length ≤ refV.length)
    (he : min estI.length estP.length ≤ estV.length) :
    (∃ v, velMatchNotes refI refP refV estI estP estV p velTol = .ok v) ∨
      velMatchNotes refI refP refV estI estP estV p velTol = .error .valueError := by
  rcases velMatchNotes_errors_partial refI refP refV estI estP estV p velTol with h | ⟨h, _⟩ | ⟨_, h⟩
  · exact Or.inl h
  · exact Or.inr h
  · omega

example : ∃ v, velMatchNotes [(0, 1)] [60] [64] [(0, 1), (3, 4)] [60, 70] [64, 3] {} (1 / 10) = .ok v :=
  velMatchNotes_total _ ⟨fun _ => by decide +kernel, by simp, by simp, by simp⟩
example : velMatchNotes [(0, 1)] [60] [] [(0, 1)] [60] [1] {} (1 / 10) = .error .valueError := by
  unfold velMatchNotes matchNotes; simp only [HK.pyMatching_eq]; decide +kernel
example : velMatchNotes [(0, 1)] [60] [1] [(0, 1)] [60] [1] {} (1 / 10) = .ok [(0, 0)] := by
  unfold velMatchNotes matchNotes; simp only [HK.pyMatching_eq]; decide +kernel

/-! ## transcription_velocity.precision_recall_f1_overlap -/

theorem velPRFOverlap_total {refI estI : List Ival} {refP refV estP estV : List Rat} (p : Params)
    (velTol beta : Rat) (h : ValidVelNotesR refI refP refV estI estP estV) :
    ∃ v, velPRFOverlap refI refP refV estI estP estV p velTol beta = .ok v := by
  have hv := (velValidateR_ok_iff ..).2 h
  by_cases hemp : (refP.isEmpty || estP.isEmpty) = true
  · unfold velPRFOverlap
    simp only [hv, hemp, bind, Except.bind, pure, Except.pure, if_true]
    exact ⟨_, rfl⟩
  · simp only [Bool.not_eq_true] at hemp
    have hne : refV ≠ [] := by
      intro hnil
      have h1 := h.refVLength
      rw [hnil] at h1
      have : refP = [] := List.length_eq_zero_iff.1 h1.symm
      simp [this] at hemp
    have hd : VelMatchDomain refI refP refV estI estP estV p :=
      ⟨fun _ => h.notes.refIntervals, hne, by have := h.refVLength; omega, by have := h.estVLength; omega⟩
    obtain ⟨m, hm⟩ := velMatchNotes_total velTol hd
    obtain ⟨M, hM, hsub⟩ := velMatchNotes_sublist hm
    obtain ⟨a, ha⟩ := averageOverlapRatio_of_inRange
      (((matchNotes_inRange hM).mono (Nat.min_le_left _ _) (Nat.min_le_left _ _)).sublist hsub)
    unfold velPRFOverlap
    simp only [hv, hemp, hm, ha, bind, Except.bind, pure, Except.pure, Bool.false_eq_true, if_false]
    exact ⟨_, rfl⟩

theorem velPRFOverlap_errors (refI : List Ival) (refP refV : List Rat) (estI : List Ival) (estP estV : List Rat)
    (p : Params) (velTol beta : Rat) :
    (∃ v, velPRFOverlap refI refP refV estI estP estV p velTol beta = .ok v) ∨
      velPRFOverlap refI refP refV estI estP estV p velTol beta = .error .valueError :=
  okVE_of_validator (velValidate_okVE refI (refP.map some) refV estI (estP.map some) estV)
    (fun hv => velPRFOverlap_total p velTol beta ((velValidateR_ok_iff ..).1 hv))
    (fun hv => by unfold velPRFOverlap; exact bind_ve _ hv)

theorem velPRFOverlap_ok_iff (refI : List Ival) (refP refV : List Rat) (estI : List Ival) (estP estV : List Rat)
    (p : Params) (velTol beta : Rat) :
    (∃ v, velPRFOverlap refI refP refV estI estP estV p velTol beta = .ok v) ↔
      ValidVelNotesR refI refP refV estI estP estV := by
  refine ⟨fun hok => ?_, velPRFOverlap_total p velTol beta⟩
  by_contra hn
  have hv : velValidate refI (refP.map some) refV estI (estP.map some) estV = .error .valueError := by
    rcases velValidate_okVE refI (refP.map some) refV estI (estP.map some) estV with ⟨⟨⟩, hv⟩ | hv
    · exact absurd ((velValidateR_ok_iff ..).1 hv) hn
    · exact hv
  obtain ⟨v, hok⟩ := hok
  have : velPRFOverlap refI refP refV estI estP estV p velTol beta = .error .valueError := by
    unfold velPRFOverlap; exact bind_ve _ hv
  rw [this] at hok; cases hok

example : ∃ v, velPRFOverlap [(0, 1), (1, 2)] [60, 62] [64, 100] [(0, 1)] [60] [64] {} (1 / 10) 1 = .ok v :=
  velPRFOverlap_total _ _ _ ⟨⟨by decide +kernel, by decide +kernel, rfl, rfl⟩, rfl, rfl,
    by decide +kernel, by decide +kernel⟩
example : velPRFOverlap [] [] [] [(0, 1)] [60] [64] {} (1 / 10) 1 = .ok (0, 0, 0, 0) := by decide +kernel
example : velPRFOverlap [(0, 1)] [60] [64] [(0, 1)] [60] [] {} (1 / 10) 1 = .error .valueError := by
  decide +kernel

/-! ## transcription_velocity.evaluate -/

theorem velEvaluate_total {refI estI : List Ival} {refP refV estP estV : List Rat} (p : Params)
    (velTol beta : Rat) (h : ValidVelNotesR refI refP refV estI estP estV) :
    ∃ v, velEvaluate refI refP refV estI estP estV p velTol beta = .ok v := by
  obtain ⟨ot, pt, ρ, mt, st⟩ := p
  obtain ⟨s0, h0⟩ := velPRFOverlap_total ⟨ot, pt, none, mt, st⟩ velTol beta h
  cases ρ with
  | none =>
    simp only [velEvaluate, h0, bind, Except.bind, pure, Except.pure]
    exact ⟨_, rfl⟩
  | some ρ =>
    obtain ⟨s1, h1⟩ := velPRFOverlap_total ⟨ot, pt, some ρ, mt, st⟩ velTol beta h
    simp only [velEvaluate, h0, h1, bind, Except.bind, pure, Except.pure]
    exact ⟨_, rfl⟩

theorem velEvaluate_errors (refI : List Ival) (refP refV : List Rat) (estI : List Ival) (estP estV : List Rat)
    (p : Params) (velTol beta : Rat) :
    (∃ v, velEvaluate refI refP refV estI estP estV p velTol beta = .ok v) ∨
      velEvaluate refI refP refV estI estP estV p velTol beta = .error .valueError := by
  refine okVE_of_validator (velValidate_okVE refI (refP.map some) refV estI (estP.map some) estV)
    (fun hv => velEvaluate_total p velTol beta ((velValidateR_ok_iff ..).1 hv)) (fun hv => ?_)
  have e : ∀ q : Params, velPRFOverlap refI refP refV estI estP estV q velTol beta = .error .valueError :=
    fun q => by unfold velPRFOverlap; exact bind_ve _ hv
  obtain ⟨ot, pt, ρ, mt, st⟩ := p
  cases ρ <;> simp only [velEvaluate, e, bind, Except.bind, pure, Except.pure]

theorem velEvaluate_ok_iff (refI : List Ival) (refP refV : List Rat) (estI : List Ival) (estP estV : List Rat)
    (p : Params) (velTol beta : Rat) :
    (∃ v, velEvaluate refI refP refV estI estP estV p velTol beta = .ok v) ↔
      ValidVelNotesR refI refP refV estI estP estV := by
  refine ⟨fun hok => ?_, velEvaluate_total p velTol beta⟩
  by_contra hn
  have hv : velValidate refI (refP.map some) refV estI (estP.map some) estV = .error .valueError := by
    rcases velValidate_okVE refI (refP.map some) refV estI (estP.map some) estV with ⟨⟨⟩, hv⟩ | hv
    · exact absurd ((velValidateR_ok_iff ..).1 hv) hn
    · exact hv
  have e : ∀ q : Params, velPRFOverlap refI refP refV estI estP estV q velTol beta = .error .valueError :=
    fun q => by unfold velPRFOverlap; exact bind_ve _ hv
  obtain ⟨v, hok⟩ := hok
  obtain ⟨ot, pt, ρ, mt, st⟩ := p
  cases ρ <;> simp only [velEvaluate, e, bind, Except.bind, pure, Except.pure] at hok <;> cases hok

example : ∃ v, velEvaluate [(0, 1), (1, 2)] [60, 62] [64, 100] [(0, 1)] [60] [64] {} (1 / 10) 1 = .ok v :=
  velEvaluate_total _ _ _ ⟨⟨by decide +kernel, by decide +kernel, rfl, rfl⟩, rfl, rfl,
    by decide +kernel, by decide +kernel⟩
example : ∃ v, velEvaluate [] [] [] [] [] [] { offsetRatio := none } (1 / 10) 1 = .ok v :=
  velEvaluate_total _ _ _ ⟨⟨by decide +kernel, by decide +kernel, rfl, rfl⟩, rfl, rfl,
    by decide +kernel, by decide +kernel⟩
example : velEvaluate [(0, 1)] [60] [-1] [(0, 1)] [60] [1] {} (1 / 10) 1 = .error .valueError := by
  decide +kernel

end Mir.C14.Transcription
