import MirProofs.Lemmas.Effects
import MirProofs.Lemmas.EffectsInit
import MirGen.Effects
import MirGen.EffectsValid

/-!
# C15 — evaluation is pure: inputs are never modified, results are repeatable

Layer M for this property is not the functional model of the metrics (a Lean function is trivially pure)
but `MirModel/Effects.lean`: names, aliasing, in-place writes, module state, calls, early exits.

* `analysis_sound`      — a function the abstract interpreter calls `safe` leaves the version of every
                          location that existed before the call unchanged and writes no global state, on
                          every execution (normal return, early return, exception).
* `history_invariant`   — if every function of a call sequence is safe then every call of the sequence —
                          whatever was called before it, in whatever order — starts in a world that agrees
                          with the initial one on all caller-owned objects and on the global state.
* `empty_init_sound`    — a function `initOK` accepts reads completely written `np.empty` buffers only, on
                          every path of the path semantics `PathI` (any branches, any iteration counts).
* `gen_*`               — G-obligations on the program regenerated from the current source.

The defects this slice found on the snapshot (`melody.freq_to_voicing` & callers writing `est_voicing` /
`ref_reward`; `util.adjust_intervals` / `adjust_events` / `chord.evaluate` appending to the caller's `labels`;
`bss_eval_images_framewise` returning an unwritten `np.empty` column) were repaired by `fix:` commits; the
G-obligations below are now stated at full strength.
-/

namespace Mir.C15
open Mir.Effects

/-! ## S-theorems: soundness of the analysis, for every program -/

/-- Table-relative soundness: with any valid (post-fixpoint) summary table, a function whose summary is
    pure changes no pre-existing location and no global state, whatever the outcome. -/
theorem analysis_sound_table {P : Prog} {T : List Eff} {f : FunId} {fd : FunDef}
    (hs : safeWith T P f = true) (hf : P.funs[f]? = some fd)
    (genv : Var → Option Nat) (locs : List Nat) (heap : Nat → Nat) (next gver : Nat) (s' : State) (o : Out)
    (h : Exec P genv fd.body (entryState P genv fd locs heap next gver) s' o) :
    (∀ l, l < next → s'.heap l = heap l) ∧ s'.gver = gver ∧ next ≤ s'.next := by
  simp only [safeWith, Bool.and_eq_true] at hs
  obtain ⟨hT, hp⟩ := hs
  obtain ⟨sm, hTf, hle⟩ := validTable_sound hT hf
  obtain ⟨hwr, _, hgw, hfail⟩ := Eff.leq_sound hle
  simp only [pureAt, hTf, Eff.pure, Bool.and_eq_true, List.isEmpty_iff, Bool.not_eq_true'] at hp
  obtain ⟨⟨hwr0, hgw0⟩, hfail0⟩ := hp
  have hfc : (analyze T fd.body (initEnv P fd)).2.fail = false := by
    simpa [analyzeFun] using hfail hfail0
  have post := exec_sound hT h ⟨next, locs⟩ (initEnv P fd) (Inv_entry P genv fd locs next)
    (Nat.le_refl _) hfc
  refine ⟨?_, ?_, post.next_le⟩
  · intro l hl
    apply Classical.byContradiction
    intro hne
    obtain ⟨og, hog, _⟩ := post.heap l hl hne
    have := hwr og (by simpa [analyzeFun] using hog)
    simp [hwr0] at this
  · apply Classical.byContradiction
    intro hne
    have := hgw (by simpa [analyzeFun] using post.gver hne)
    simp [hgw0] at this

/-- **analysis_sound.**  `safe P f = true` ⇒ on every execution of `f` (from any heap, with any argument
    locations, under any binding of the module-level names, ending by return *or* exception) every
    location that existed before the call keeps its version, and the global state is not written. -/
theorem analysis_sound {P : Prog} {f : FunId} {fd : FunDef} (hs : safe P f = true)
    (hf : P.funs[f]? = some fd)
    (genv : Var → Option Nat) (locs : List Nat) (heap : Nat → Nat) (next gver : Nat) (s' : State) (o : Out)
    (h : Exec P genv fd.body (entryState P genv fd locs heap next gver) s' o) :
    (∀ l, l < next → s'.heap l = heap l) ∧ s'.gver = gver ∧ next ≤ s'.next :=
  analysis_sound_table (T := build P) hs hf genv locs heap next gver s' o h

/-- In particular every parameter-reachable location (the argument objects are caller-owned, i.e. were
    allocated before the call) is unchanged. -/
theorem analysis_sound_params {P : Prog} {f : FunId} {fd : FunDef} (hs : safe P f = true)
    (hf : P.funs[f]? = some fd)
    (genv : Var → Option Nat) (locs : List Nat) (heap : Nat → Nat) (next gver : Nat) (s' : State) (o : Out)
    (hlocs : ∀ l, l ∈ locs → l < next)
    (h : Exec P genv fd.body (entryState P genv fd locs heap next gver) s' o) :
    ∀ l, l ∈ locs → s'.heap l = heap l :=
  fun l hl => (analysis_sound hs hf genv locs heap next gver s' o h).1 l (hlocs l hl)

/-- frame of a whole call sequence -/
theorem run_frame {P : Prog} {T : List Eff} {genv : Var → Option Nat} {calls : List ApiCall} {w w' : World}
    (hsafe : ∀ c, c ∈ calls → safeWith T P c.f = true) (h : Run P genv calls w w') :
    (∀ l, l < w.next → w'.heap l = w.heap l) ∧ w'.gver = w.gver ∧ w.next ≤ w'.next := by
  induction h with
  | nil w => exact ⟨fun _ _ => rfl, rfl, Nat.le_refl _⟩
  | @cons c rest fd w w' s' o hfd hex _ ih =>
    have h1 := analysis_sound_table (hsafe c (List.mem_cons_self ..)) hfd genv c.args w.heap w.next w.gver s' o hex
    have h2 := ih (fun c' hc' => hsafe c' (List.mem_cons_of_mem _ hc'))
    refine ⟨?_, ?_, Nat.le_trans h1.2.2 h2.2.2⟩
    · intro l hl
      rw [h2.1 l (Nat.lt_of_lt_of_le hl h1.2.2)]
      exact h1.1 l hl
    · rw [h2.2.1]; exact h1.2.1

theorem run_split {P : Prog} {genv : Var → Option Nat} {pre post : List ApiCall} {w w' : World}
    (h : Run P genv (pre ++ post) w w') : ∃ wm, Run P genv pre w wm ∧ Run P genv post wm w' := by
  induction pre generalizing w with
  | nil => exact ⟨w, Run.nil w, h⟩
  | cons c rest ih =>
    cases h with
    | cons hfd hex hrest =>
      obtain ⟨wm, h1, h2⟩ := ih hrest
      exact ⟨wm, Run.cons hfd hex h1, h2⟩

/-- **history_invariant.**  If all functions called in a finite sequence of API calls are safe, then
    every call of the sequence — after any prefix `pre` of other calls, i.e. for every order, repetition
    and interleaving — starts in a world `wm` in which all objects the caller owned at the beginning
    (in particular its arguments) have their original versions and the global state is unchanged;
    and the same holds at the end of the sequence. -/
theorem history_invariant {P : Prog} {genv : Var → Option Nat} {pre post : List ApiCall} {c : ApiCall}
    {w w' : World} (hsafe : ∀ c', c' ∈ pre ++ c :: post → safe P c'.f = true)
    (h : Run P genv (pre ++ c :: post) w w') :
    ∃ wm, Run P genv pre w wm ∧ Run P genv (c :: post) wm w' ∧
      (∀ l, l < w.next → wm.heap l = w.heap l) ∧ wm.gver = w.gver ∧
      (∀ l, l < w.next → w'.heap l = w.heap l) ∧ w'.gver = w.gver := by
  obtain ⟨wm, h1, h2⟩ := run_split h
  have f1 := run_frame (T := build P) (fun c' hc' => hsafe c' (List.mem_append_left _ hc')) h1
  have f2 := run_frame (T := build P) hsafe h
  exact ⟨wm, h1, h2, f1.1, f1.2.1, f2.1, f2.2.1⟩

/-! ### non-vacuity -/

/-- `def f(p): t = p.copy(); t[0] = 1; return t` is safe … -/
def demoSafe : Prog := ⟨[⟨[0], .seq (.assign 1 (.fresh [0])) (.seq (.mutate 1) (.ret [1]))⟩], []⟩
/-- … and `def g(p): q = p[1:]; q[0] = 1` is not. -/
def demoUnsafe : Prog := ⟨[⟨[0], .seq (.assign 1 (.alias [0])) (.mutate 1)⟩], []⟩

example : safe demoSafe 0 = true := by decide
example : safe demoUnsafe 0 = false := by decide

/-- the hypotheses of `analysis_sound` are satisfiable: the safe demo function has an execution that
    returns its new object (location 8) and leaves the argument (location 7) alone … -/
example : ∃ s', Exec demoSafe (fun _ => none)
    (.seq (.assign 1 (.fresh [0])) (.seq (.mutate 1) (.ret [1])))
    (entryState demoSafe (fun _ => none) ⟨[0], .skip⟩ [7] (fun _ => 0) 8 0) s' (.ret 8) ∧
    s'.heap 7 = 0 ∧ s'.heap 8 = 1 := by
  refine ⟨_, Exec.seq_norm (Exec.assign_fresh (x := 1) (rs := [0]) _)
    (Exec.seq_norm (Exec.mutate (x := 1) (l := 8) _ ?_) (Exec.ret_alias (v := 1) (l := 8) _ ?_ ?_)), ?_, ?_⟩
  · simp [upd, entryState]
  · simp
  · simp [upd, entryState]
  · simp [bump, entryState]
  · simp [bump, entryState]

/-- … and the conclusion is not vacuous either: the unsafe demo function has an execution that changes
    the version of its argument (location 7 < 8). -/
example : ∃ s', Exec demoUnsafe (fun _ => none) (.seq (.assign 1 (.alias [0])) (.mutate 1))
    (entryState demoUnsafe (fun _ => none) ⟨[0], .skip⟩ [7] (fun _ => 0) 8 0) s' .norm ∧ s'.heap 7 = 1 := by
  refine ⟨_, Exec.seq_norm (Exec.assign_alias (v := 0) (l := 7) _ ?_ ?_)
    (Exec.mutate (x := 1) (l := 7) _ ?_), ?_⟩
  · simp
  · simp [entryState, bindParams]
  · simp [upd]
  · simp [bump, entryState]

/-- `history_invariant` is about real sequences: two calls of the safe demo function in a row -/
example : ∃ w', Run demoSafe (fun _ => none) [⟨0, [7]⟩, ⟨0, [7]⟩] ⟨fun _ => 0, 8, 0⟩ w' ∧ w'.heap 7 = 0 := by
  refine ⟨_, Run.cons (fd := ⟨[0], .seq (.assign 1 (.fresh [0])) (.seq (.mutate 1) (.ret [1]))⟩) (by rfl)
    (Exec.seq_norm (Exec.assign_fresh (x := 1) (rs := [0]) _)
      (Exec.seq_norm (Exec.mutate (x := 1) (l := 8) _ (by simp [upd, entryState]))
        (Exec.ret_alias (v := 1) (l := 8) _ (by simp) (by simp [upd, entryState]))))
    (Run.cons (fd := ⟨[0], .seq (.assign 1 (.fresh [0])) (.seq (.mutate 1) (.ret [1]))⟩) (by rfl)
      (Exec.seq_norm (Exec.assign_fresh (x := 1) (rs := [0]) _)
        (Exec.seq_norm (Exec.mutate (x := 1) (l := 9) _ (by simp [upd, entryState]))
          (Exec.ret_alias (v := 1) (l := 9) _ (by simp) (by simp [upd, entryState]))))
      (Run.nil _)), ?_⟩
  simp [bump, entryState]

/-! ## G-obligations on the regenerated program -/

open MirGen.Effects in
/-- the summary table proposed by the translator is a post-fixpoint of the analysis of the current source -/
theorem gen_table_valid : validTable prog table = true := table_valid

/-- the one public function that is pure on valid inputs but that the analysis cannot prove
    (`util.intersect_files` stores path strings taken from its argument lists into new lists and appends to
    those; that the items are immutable strings is not documented in a form the translator reads):
    covered by the runtime oracle only, listed as UNPROVED -/
def unproved : List Nat :=
  open MirGen.Effects in
  [id_util_intersect_files]

open MirGen.Effects in
/-- **Every** public function of the task modules, util, sonify and separation (but `intersect_files`, see
    `unproved`) is safe.  Since the `fix:` commits c44e6a6 (freq_to_voicing copies `voicing`) and aa0fc9a
    (adjust_intervals / adjust_events copy `labels`) this holds without excluding any known finding. -/
theorem gen_public_safe : ∀ f, f ∈ publicIds → f ∉ unproved → safeWith table prog f = true := by
  have h : (publicIds.filter fun f => !unproved.contains f).all (fun f => pureAt table f) = true := by
    decide +kernel
  intro f hf hu
  simp only [safeWith, gen_table_valid, Bool.true_and]
  rw [List.all_eq_true] at h
  apply h
  simp [List.mem_filter, hf, hu]

open MirGen.Effects in
/-- the functions that used to write their caller's objects are now proved safe by name (a regression
    breaks this theorem even if the lists above were edited) -/
theorem gen_repaired_safe :
    ∀ f, f ∈ [id_melody_freq_to_voicing, id_melody_to_cent_voicing, id_melody_evaluate,
              id_util_adjust_intervals, id_util_adjust_events, id_chord_evaluate,
              id_hierarchy_evaluate, id_segment_evaluate] → safeWith table prog f = true := by
  intro f hf
  simp only [safeWith, gen_table_valid, Bool.true_and]
  revert f
  decide +kernel

open MirGen.Effects in
/-- no public function writes module-level state or a module-level object -/
theorem gen_no_global_writes : ∀ f, f ∈ publicIds → noGlobalWritesAt table f = true := by decide +kernel

/-! ## `np.empty` buffers -/

/-- What `initOK` guarantees: on every control-flow path of a function the analysis accepts, every read
    (alias, argument, return) sees a variable that is not an `np.empty` buffer with an unwritten cell — in
    the path semantics `Mir.Effects.PathI`, where a buffer has one cell per iteration of the loop that
    indexes it: after `allocEmpty x` the status of `x` is `empty`; only `fillAll x`, or a loop that indexes
    `x` and runs `fillSome x` in *every* iteration on *every* branch, bring it back to `init`; a read of `x`
    at any other status makes the path's `ok` false. -/
def empty_init_sound_statement : Prop :=
  ∀ (fd : FunDef), initOKFun fd = true →
    ∀ e' ok stop, PathI [] (.stmt fd.body) [] e' ok stop → ok = true

/-- **empty_init_sound.**  `initOKFun fd = true` ⇒ every path through the body of `fd` — any branch of
    every `if`, any number of iterations of every loop, ending by falling through, `return` or `raise` —
    reads completely written buffers only.  (Proof: `Mir.Effects.path_sim`, a simulation between `PathI`
    and `initAn` by induction over paths; the abstract status over-approximates the path's status pointwise,
    the abstract loop context contains the path's.)

    The statement is the one this module always carried; what had to change for it to be *true* is the
    analysis: `initAn` now refuses an `allocEmpty x` inside a loop that indexes `x`
    (`realloc_in_indexing_loop` below is the counterexample to the former version). -/
theorem empty_init_sound : empty_init_sound_statement :=
  fun _ hf _ _ _ h => initOKFun_sound hf h

/-- spelled out for the `return`: whenever a path reaches the final `return srcs` of an accepted function,
    every returned variable is completely written -/
theorem empty_init_sound_return {ps : List Var} {c : Stmt} {srcs : List Var}
    (hf : initOKFun ⟨ps, .seq c (.ret srcs)⟩ = true) {e : IEnv} {ok : Bool}
    (h : PathI [] (.stmt c) [] e ok false) : ∀ v, v ∈ srcs → IEnv.get e v = .init := by
  have := empty_init_sound _ hf _ _ _ (PathI.seq_norm h PathI.ret)
  simp only [Bool.and_eq_true, readsOK, List.all_eq_true, beq_iff_eq] at this
  exact this.2

/-- per-program form used with the G-obligation `gen_init_ok` -/
theorem empty_init_sound_prog {P : Prog} {f : FunId} {fd : FunDef} (hf : P.funs[f]? = some fd)
    (h : initOK P f = true) {e' : IEnv} {ok st : Bool} (hp : PathI [] (.stmt fd.body) [] e' ok st) :
    ok = true := by
  simp only [initOK, hf] at h
  exact empty_init_sound fd h _ _ _ hp

/-! ### non-vacuity -/

/-- non-vacuity of the analysis itself: a buffer filled in every iteration is accepted, one that is not
    written on the `else` branch is refused (the shape of `bss_eval_images_framewise`) -/
example : initOKFun ⟨[], .seq (.allocEmpty 0) (.seq (.loop (.fillSome 0)) (.ret [0]))⟩ = true := by decide
example : initOKFun ⟨[], .seq (.allocEmpty 0) (.seq (.loop (.ite (.fillSome 0) .skip)) (.ret [0]))⟩ = false := by
  decide
example : initOKFun ⟨[], .seq (.allocEmpty 0) (.seq (.loop (.loop (.fillSome 0))) (.ret [0]))⟩ = true := by decide
example : initOKFun ⟨[], .seq (.allocEmpty 0) (.seq (.loop (.seq (.loop (.fillSome 0)) (.assign 1 (.fresh [0]))))
    (.ret [0]))⟩ = false := by decide

/-- `sdr, isr, sir, sar, perm = np.empty(…)` -/
def alloc5 (rest : Stmt) : Stmt :=
  .seq (.allocEmpty 0) (.seq (.allocEmpty 1) (.seq (.allocEmpty 2) (.seq (.allocEmpty 3) (.seq (.allocEmpty 4) rest))))
/-- `sdr[:, k], isr[:, k], sir[:, k], sar[:, k], perm[:, k] = …` -/
def fill5 : Stmt := .seq (.fillSome 0) (.seq (.fillSome 1) (.seq (.fillSome 2) (.seq (.fillSome 3) (.fillSome 4))))
/-- the silent-window branch before `fix:` b910d54: `isr[:, k]` (buffer 1) is not written -/
def fill4 : Stmt := .seq (.fillSome 0) (.seq (.fillSome 2) (.seq (.fillSome 3) (.fillSome 4)))
/-- shape of `bss_eval_images_framewise` as repaired: five buffers, all filled on both branches of the window loop -/
def framewiseFixed : FunDef := ⟨[], alloc5 (.seq (.loop (.ite fill5 fill5)) (.ret [0, 1, 2, 3, 4]))⟩
/-- … and before the repair: four filled on both branches, one on one branch only -/
def framewiseBefore : FunDef := ⟨[], alloc5 (.seq (.loop (.ite fill5 fill4)) (.ret [0, 1, 2, 3, 4]))⟩

/-- the premise of `empty_init_sound` holds for the repaired shape … -/
example : initOKFun framewiseFixed = true := by decide
/-- … its conclusion is about real paths: one iteration through the silent branch, then the `return` … -/
example : ∃ e' ok, PathI [] (.stmt framewiseFixed.body) [] e' ok true :=
  ⟨_, _, PathI.seq_norm PathI.allocEmpty (PathI.seq_norm PathI.allocEmpty (PathI.seq_norm PathI.allocEmpty
    (PathI.seq_norm PathI.allocEmpty (PathI.seq_norm PathI.allocEmpty
      (PathI.seq_norm
        (PathI.loop (PathI.iter_step
          (PathI.ite_r (PathI.seq_norm PathI.fillSome (PathI.seq_norm PathI.fillSome
            (PathI.seq_norm PathI.fillSome (PathI.seq_norm PathI.fillSome PathI.fillSome)))))
          PathI.iter_done))
        PathI.ret)))))⟩
/-- … and all five returned buffers are completely written there. -/
example {e : IEnv} {ok : Bool}
    (h : PathI [] (.stmt (alloc5 (.loop (.ite fill5 fill5)))) [] e ok false) :
    ∀ v, v ∈ [0, 1, 2, 3, 4] → IEnv.get e v = .init := by
  have hf : initOKFun ⟨[], .seq (alloc5 (.loop (.ite fill5 fill5))) (.ret [0, 1, 2, 3, 4])⟩ = true := by decide
  exact empty_init_sound_return hf h

/-- the missing write of the pre-fix shape is detected by the analysis … -/
example : initOKFun framewiseBefore = false := by decide
/-- … and it is a real one: the path with one iteration through the silent branch returns `isr` with a
    garbage cell (`ok = false`), so the conclusion of `empty_init_sound` fails for that function. -/
theorem framewiseBefore_reads_garbage :
    ¬ ∀ e' ok stop, PathI [] (.stmt framewiseBefore.body) [] e' ok stop → ok = true := by
  intro hall
  have h := hall _ _ _
    (PathI.seq_norm PathI.allocEmpty (PathI.seq_norm PathI.allocEmpty (PathI.seq_norm PathI.allocEmpty
      (PathI.seq_norm PathI.allocEmpty (PathI.seq_norm PathI.allocEmpty
        (PathI.seq_norm
          (PathI.loop (PathI.iter_step
            (PathI.ite_r (PathI.seq_norm PathI.fillSome
              (PathI.seq_norm PathI.fillSome (PathI.seq_norm PathI.fillSome PathI.fillSome))))
            PathI.iter_done))
          PathI.ret))))))
  revert h
  decide

/-- `if c: x = np.empty(n)` … `for k: x = np.empty(n); x[k] = …` … `return x`: the buffer is re-allocated
    inside the loop that indexes it, so after the loop only the last cell is written.  `initAn` refuses it
    (rule `allocEmpty x` with `x ∈ ctx`); before that rule existed it was accepted (on the abstract side `x`
    is `empty` at loop entry, indexed, `cell` at the end of every iteration, hence `init` after the loop),
    which made `empty_init_sound_statement` false: -/
def reallocInIndexingLoop : FunDef :=
  ⟨[], .seq (.ite (.allocEmpty 0) .skip) (.seq (.loop (.seq (.allocEmpty 0) (.fillSome 0))) (.ret [0]))⟩

example : initOKFun reallocInIndexingLoop = false := by decide

theorem realloc_in_indexing_loop :
    ¬ ∀ e' ok stop, PathI [] (.stmt reallocInIndexingLoop.body) [] e' ok stop → ok = true := by
  intro hall
  have h := hall _ _ _
    (PathI.seq_norm (PathI.ite_r PathI.skip)
      (PathI.seq_norm
        (PathI.loop (PathI.iter_step (PathI.seq_norm PathI.allocEmpty PathI.fillSome) PathI.iter_done))
        PathI.ret))
  revert h
  decide

open MirGen.Effects in
/-- **Every** public function fills each `np.empty` buffer before reading it (since `fix:` b910d54
    `bss_eval_images_framewise` also writes `isr[:, k]` on silent windows). -/
theorem gen_init_ok : ∀ f, f ∈ publicIds → initOK prog f = true := by
  decide +kernel

end Mir.C15
