import MirModel.Segment
import MirProofs.Lemmas.Segment
import MirProofs.Lemmas.SegmentReal
/-!
  C16 — segment labelling scores equal their clustering-index definitions.

  All statements are about the executable model `MirModel.Segment` (tied to `mir_eval.segment` by the
  correspondence check) and hold for label-index sequences of *any* length.

  Notation: for two frame-label index sequences `yr`, `ye` of equal length `n`,
  `combSums yr ye = (Σ_ij C(n_ij,2), Σ_i C(a_i,2), Σ_j C(b_j,2))` are the binomial sums of the contingency
  table `contingency yr ye` (`a_i` row sums = reference cluster sizes, `b_j` column sums).
-/
namespace Mir.C16
open Mir Mir.Segment

/-- **pairwise_textbook (counts).** The three numbers `segment.pairwise` obtains from outer-equality
    matrices, `(Σ matrix − n)/2`, are the binomial sums of the contingency table:
    `n_matches = Σ_ij C(n_ij,2)`, `n_agree_est = Σ_j C(b_j,2)`, `n_agree_ref = Σ_i C(a_i,2)`. -/
theorem pairwise_textbook_counts (yr ye : List Nat) (h : yr.length = ye.length) :
    pairCounts yr ye =
      (((combSums yr ye).1 : ℚ), ((combSums yr ye).2.2 : ℚ), ((combSums yr ye).2.1 : ℚ)) :=
  pairCounts_eq h

/-- **pairwise_textbook.** Whenever each side has at least one co-labelled pair of frames,
    precision `= Σ C(n_ij,2) / Σ C(b_j,2)`, recall `= Σ C(n_ij,2) / Σ C(a_i,2)`, and F is `util.f_measure`
    of the two — for every `beta > 0`. -/
theorem pairwise_textbook (yr ye : List Nat) (beta : ℚ) (h : yr.length = ye.length) (hb : 0 < beta)
    (hA : 0 < (combSums yr ye).2.1) (hB : 0 < (combSums yr ye).2.2) :
    pairwiseIdx yr ye beta = .ok
      (.val (((combSums yr ye).1 : ℚ) / ((combSums yr ye).2.2 : ℚ)),
       .val (((combSums yr ye).1 : ℚ) / ((combSums yr ye).2.1 : ℚ)),
       .val (fMeasure (((combSums yr ye).1 : ℚ) / ((combSums yr ye).2.2 : ℚ))
                      (((combSums yr ye).1 : ℚ) / ((combSums yr ye).2.1 : ℚ)) beta)) :=
  pairwiseIdx_eq h hb hA hB

example : pairwiseIdx [0, 0, 1, 1] [0, 1, 1, 1] 1 = .ok (.val (1/3), .val (1/2), .val (2/5))
    ∧ combSums [0, 0, 1, 1] [0, 1, 1, 1] = (1, 2, 3) := by decide +kernel

/-- **rand_textbook.** With at least two frames, the Rand index is
    `(C(n,2) + 2 Σ C(n_ij,2) − Σ C(a_i,2) − Σ C(b_j,2)) / C(n,2)` = agreeing pairs / all pairs. -/
theorem rand_textbook (yr ye : List Nat) (h : yr.length = ye.length) (hn : 2 ≤ yr.length) :
    randIdx yr ye = .ok (.val
      (((choose2 yr.length : ℚ) + 2 * ((combSums yr ye).1 : ℚ)
          - ((combSums yr ye).2.1 : ℚ) - ((combSums yr ye).2.2 : ℚ)) / (choose2 yr.length : ℚ))) :=
  randIdx_eq h hn

example : randIdx [0, 0, 1, 1] [0, 1, 1, 1] = .ok (.val (1/2)) ∧ choose2 4 = 6 := by decide +kernel

/-- **ari_textbook.** Outside the code's three special cases (both one cluster / both empty / both all
    singletons) `_adjusted_rand_index` is the Hubert–Arabie quotient on the contingency table, and both of its
    divisions are by strictly positive numbers. -/
theorem ari_textbook (yr ye : List Nat) (h : yr.length = ye.length) (hs : ¬ ariSpecial yr ye) :
    adjustedRandIdx yr ye = .ok
      ((((combSums yr ye).1 : ℚ)
          - ((combSums yr ye).2.1 : ℚ) * ((combSums yr ye).2.2 : ℚ) / (choose2 yr.length : ℚ)) /
       ((((combSums yr ye).2.2 : ℚ) + ((combSums yr ye).2.1 : ℚ)) / 2
          - ((combSums yr ye).2.1 : ℚ) * ((combSums yr ye).2.2 : ℚ) / (choose2 yr.length : ℚ)))
    ∧ (0 : ℚ) < (choose2 yr.length : ℚ)
    ∧ (0 : ℚ) < (((combSums yr ye).2.2 : ℚ) + ((combSums yr ye).2.1 : ℚ)) / 2
        - ((combSums yr ye).2.1 : ℚ) * ((combSums yr ye).2.2 : ℚ) / (choose2 yr.length : ℚ) :=
  ⟨adjustedRandIdx_eq h hs, (ari_den_pos h hs).1, (ari_den_pos h hs).2⟩

/-- **ari_textbook (special cases).** In the three special cases the answer is 1. -/
theorem ari_special (yr ye : List Nat) (hs : ariSpecial yr ye) : adjustedRandIdx yr ye = .ok 1 :=
  adjustedRandIdx_special hs

/-- `_adjusted_rand_index` never raises (no `ZeroDivisionError`) on sequences of equal length. -/
theorem ari_total (yr ye : List Nat) (h : yr.length = ye.length) : ∃ q, adjustedRandIdx yr ye = .ok q :=
  adjustedRandIdx_ok h

example : ¬ ariSpecial [0, 0, 1, 1] [0, 1, 1, 1] ∧ adjustedRandIdx [0, 0, 1, 1] [0, 1, 1, 1] = .ok 0
    ∧ ariSpecial [0, 1, 2] [2, 0, 1] ∧ ariSpecial [5, 5] [1, 1] := by decide +kernel

/-- **ari_self.** ARI = 1 whenever the two label sequences induce the same partition of the frames
    (whatever the label names, including one cluster and all singletons). -/
theorem ari_self (yr ye : List Nat) (h : yr.length = ye.length) (hp : SamePartition yr ye) :
    adjustedRandIdx yr ye = .ok 1 :=
  adjustedRandIdx_self h hp

example : SamePartition [0, 0, 1, 2, 1] [3, 3, 0, 1, 0] ∧
    adjustedRandIdx [0, 0, 1, 2, 1] [3, 3, 0, 1, 0] = .ok 1 ∧ ¬ ariSpecial [0, 0, 1, 2, 1] [3, 3, 0, 1, 0] := by
  refine ⟨?_, by decide +kernel, by decide +kernel⟩
  unfold SamePartition
  decide +kernel

/-- ARI never exceeds 1. -/
theorem ari_le_one (yr ye : List Nat) (h : yr.length = ye.length) (q : ℚ)
    (hq : adjustedRandIdx yr ye = .ok q) : q ≤ 1 :=
  adjustedRandIdx_le_one h hq

/-- **v_eq_nce_marginal.** `vmeasure` is `nce(marginal=True)` — for the public function and for its body at
    every number type. -/
theorem v_eq_nce_marginal (A : Annot) (fs beta : ℚ) : vmeasure A fs beta = nce A fs beta true := rfl

theorem v_eq_nce_marginal_idx {α : Type} [Transc α] (yr ye : List Nat) (beta : α) :
    vmeasureIdx yr ye beta = nceIdx yr ye beta true := rfl

/-- **v_is_harmonic_mean.** Over the reals and at `beta = 1`, the third component of V-measure / NCE is the
    harmonic mean `2PR/(P+R)` of the first two (0 when both vanish). -/
theorem v_is_harmonic_mean (yr ye : List Nat) (marginal : Bool) :
    (nceIdx (α := ℝ) yr ye (Transc.ofNat 1) marginal).2.2 =
      if (nceIdx (α := ℝ) yr ye (Transc.ofNat 1) marginal).1 = 0 ∧
         (nceIdx (α := ℝ) yr ye (Transc.ofNat 1) marginal).2.1 = 0 then 0
      else 2 * (nceIdx (α := ℝ) yr ye (Transc.ofNat 1) marginal).1 *
               (nceIdx (α := ℝ) yr ye (Transc.ofNat 1) marginal).2.1 /
           ((nceIdx (α := ℝ) yr ye (Transc.ofNat 1) marginal).1 +
            (nceIdx (α := ℝ) yr ye (Transc.ofNat 1) marginal).2.1) :=
  fMeasureT_real_one _ _

example : (2 : ℝ) * (1/2) * (1/3) / ((1/2) + (1/3)) = 2/5 := by norm_num

/-- **mi_symm.** Over the reals, MI(a, b) = MI(b, a) for label sequences of equal length. -/
theorem mi_symm (yr ye : List Nat) (h : yr.length = ye.length) :
    mutualInfoIdx (α := ℝ) ye yr = mutualInfoIdx (α := ℝ) yr ye :=
  mutualInfoIdx_real_symm h

/-- **mi_textbook.** Over the reals, the code's `log a − log b` arrangement of `_mutual_info_score` equals
    `Σ_ij p_ij log(p_ij / (p_i p_j))` with `p_ij = n_ij / n`, `p_i = a_i / n`, `p_j = b_j / n`. -/
theorem mi_textbook (yr ye : List Nat) (h : yr.length = ye.length) :
    mutualInfoIdx (α := ℝ) yr ye =
      ((classes yr).map fun x => ((classes ye).map fun y =>
        let pij : ℝ := (((yr.zip ye).countP fun p => p.1 == x && p.2 == y : Nat) : ℝ) / (yr.length : ℝ)
        pij * Real.log (pij / (((yr.count x : ℝ) / yr.length) * ((ye.count y : ℝ) / yr.length)))).sum).sum :=
  mutualInfoIdx_real_textbook h

/-- **mi_nonneg.** Over the reals the double sum is non-negative (Gibbs), so the `np.clip(·, 0, None)` that
    `_mutual_info_score` applies (it only removes rounding noise in binary64) never changes the value. -/
theorem mi_nonneg (yr ye : List Nat) (h : yr.length = ye.length) :
    0 ≤ mutualInfoIdx (α := ℝ) yr ye ∧ mutualInfoIdx (α := ℝ) yr ye = miSum yr ye :=
  ⟨mutualInfoIdx_real_nonneg h, mutualInfoIdx_real h⟩

/-- **empty_scalar.** On an empty reference or estimate `rand_index` and `ari` return the scalar `0.0`
    (whenever they return at all, i.e. the other annotation validates). -/
theorem rand_ari_empty_scalar (A : Annot) (fs : ℚ) (h : A.refIvs = [] ∨ A.estIvs = []) :
    (∀ v, randIndex A fs = .ok v → v = .rat 0) ∧ (∀ v, ari A fs = .ok v → v = .rat 0) := by
  have hp : ∀ r, prologue A fs = .ok r → r = none := by
    intro r hr
    unfold prologue at hr
    cases hv : validateStructure A.refIvs A.refLabs.length A.estIvs A.estLabs.length with
    | error e => rw [hv] at hr; cases hr
    | ok u =>
      rw [hv] at hr
      have hc : (A.refIvs.isEmpty = true ∨ A.estIvs.isEmpty = true) := by
        rcases h with h | h <;> simp [h]
      simp only [hc, if_true] at hr
      cases hr; rfl
  constructor
  · intro v hv
    unfold randIndex at hv
    cases hq : prologue A fs with
    | error e => rw [hq] at hv; cases hv
    | ok r =>
      have := hp r hq
      subst this
      rw [hq] at hv
      cases hv; rfl
  · intro v hv
    unfold ari at hv
    cases hq : prologue A fs with
    | error e => rw [hq] at hv; cases hv
    | ok r =>
      have := hp r hq
      subst this
      rw [hq] at hv
      cases hv; rfl

example : prologue ⟨[], [], [(0, 1)], [['a']]⟩ 1 = .ok none := by decide +kernel

example : classes [0, 0, 1, 1] = [0, 1] ∧ classes [0, 1, 1, 1] = [0, 1] ∧
    contingency [0, 0, 1, 1] [0, 1, 1, 1] = [[1, 1], [0, 2]] := by decide +kernel

/-- **indexLabels_caseInsensitive.** Two frames receive the same index iff their labels agree after
    lower-casing: labels are compared case-insensitively and by equality only. -/
theorem indexLabels_caseInsensitive (labels : List (Option Label)) (i j : Nat)
    (hi : i < labels.length) (hj : j < labels.length) :
    (indexLabels labels)[i]'(by simp [indexLabels, indexNorm, hi]) =
      (indexLabels labels)[j]'(by simp [indexLabels, indexNorm, hj]) ↔
    normLabel labels[i] = normLabel labels[j] :=
  indexLabels_getElem_eq_iff labels i j hi hj

example : indexLabels [some ['V', 'e', 'r', 's', 'e'], some ['c', 'h'], some ['V', 'E', 'R', 'S', 'E'],
    some ['C', 'h'], none] = [2, 0, 2, 0, 1] := by
  decide +kernel

/-- **scores_caseInsensitive.** Changing the case of any label changes none of the six scores. -/
theorem scores_caseInsensitive (A A' : Annot) (fs beta : ℚ) (marginal : Bool)
    (hri : A.refIvs = A'.refIvs) (hei : A.estIvs = A'.estIvs)
    (hr : A.refLabs.map (List.map Char.toLower) = A'.refLabs.map (List.map Char.toLower))
    (he : A.estLabs.map (List.map Char.toLower) = A'.estLabs.map (List.map Char.toLower)) :
    pairwise A fs beta = pairwise A' fs beta ∧ randIndex A fs = randIndex A' fs ∧ ari A fs = ari A' fs ∧
    mutualInformation A fs = mutualInformation A' fs ∧ nce A fs beta marginal = nce A' fs beta marginal ∧
    vmeasure A fs beta = vmeasure A' fs beta := by
  have hp := prologue_caseInsensitive fs hri hei hr he
  unfold pairwise randIndex ari mutualInformation vmeasure nce
  rw [hp]
  exact ⟨rfl, rfl, rfl, rfl, rfl, rfl⟩

example : ([['V', 'e'], ['C', 'H']].map (List.map Char.toLower) = [['v', 'e'], ['C', 'h']].map (List.map Char.toLower)) ∧
    frameIndices [(0, 2), (2, 4)] [['V', 'e'], ['C', 'H']] 1 = [1, 1, 0, 0] ∧
    frameIndices [(0, 2), (2, 4)] [['v', 'e'], ['C', 'h']] 1 = [1, 1, 0, 0] ∧
    pairwiseIdx [1, 1, 0, 0] [0, 1, 1, 1] 1 = .ok (.val (1/3), .val (1/2), .val (2/5)) := by decide +kernel

end Mir.C16
