import MirModel.Segment
import MirProofs.Lemmas.Segment
import MirProofs.Lemmas.SegmentReal
import MirProofs.Lemmas.SegmentText
import MirProofs.Lemmas.SegmentRel
import MirProofs.Lemmas.EmiSupport
import MirProofs.Lemmas.IntervalsRound
/-!
  C16 — segment labelling scores equal their clustering-index definitions.

  All statements are about the executable model `MirModel.Segment` (tied to `mir_eval.segment` by the
  correspondence check) and hold for label-index sequences of *any* length.

  Notation: for two frame-label index sequences `yr`, `ye` of equal length `n`,
  `combSums yr ye = (Σ_ij C(n_ij,2), Σ_i C(a_i,2), Σ_j C(b_j,2))` are the binomial sums of the contingency
  table `contingency yr ye` (`a_i` row sums = reference cluster sizes, `b_j` column sums).
-/
namespace Mir.C16
open Mir Mir.Segment

/-- **pairwise_textbook (counts).** The three numbers `segment.pairwise` obtains from outer-equality
    matrices, `(Σ matrix − n)/2`, are the binomial sums of the contingency table:
    `n_matches = Σ_ij C(n_ij,2)`, `n_agree_est = Σ_j C(b_j,2)`, `n_agree_ref = Σ_i C(a_i,2)`. -/
theorem pairwise_textbook_counts (yr ye : List Nat) (h : yr.length = ye.length) :
    pairCounts yr ye =
      (((combSums yr ye).1 : ℚ), ((combSums yr ye).2.2 : ℚ), ((combSums yr ye).2.1 : ℚ)) :=
  pairCounts_eq h

/-- **pairwise_textbook.** Whenever each side has at least one co-labelled pair of frames,
    precision `= Σ C(n_ij,2) / Σ C(b_j,2)`, recall `= Σ C(n_ij,2) / Σ C(a_i,2)`, and F is `util.f_measure`
    of the two — for every `beta > 0`. -/
theorem pairwise_textbook (yr ye : List Nat) (beta : ℚ) (h : yr.length = ye.length) (hb : 0 < beta)
    (hA : 0 < (combSums yr ye).2.1) (hB : 0 < (combSums yr ye).2.2) :
    pairwiseIdx yr ye beta = .ok
      (.val (((combSums yr ye).1 : ℚ) / ((combSums yr ye).2.2 : ℚ)),
       .val (((combSums yr ye).1 : ℚ) / ((combSums yr ye).2.1 : ℚ)),
       .val (fMeasure (((combSums yr ye).1 : ℚ) / ((combSums yr ye).2.2 : ℚ))
                      (((combSums yr ye).1 : ℚ) / ((combSums yr ye).2.1 : ℚ)) beta)) :=
  pairwiseIdx_eq h hb hA hB

example : pairwiseIdx [0, 0, 1, 1] [0, 1, 1, 1] 1 = .ok (.val (1/3), .val (1/2), .val (2/5))
    ∧ combSums [0, 0, 1, 1] [0, 1, 1, 1] = (1, 2, 3) := by decide +kernel

/-- **rand_textbook.** With at least two frames, the Rand index is
    `(C(n,2) + 2 Σ C(n_ij,2) − Σ C(a_i,2) − Σ C(b_j,2)) / C(n,2)` = agreeing pairs / all pairs. -/
theorem rand_textbook (yr ye : List Nat) (h : yr.length = ye.length) (hn : 2 ≤ yr.length) :
    randIdx yr ye = .ok (.val
      (((choose2 yr.length : ℚ) + 2 * ((combSums yr ye).1 : ℚ)
          - ((combSums yr ye).2.1 : ℚ) - ((combSums yr ye).2.2 : ℚ)) / (choose2 yr.length : ℚ))) :=
  randIdx_eq h hn

example : randIdx [0, 0, 1, 1] [0, 1, 1, 1] = .ok (.val (1/2)) ∧ choose2 4 = 6 := by decide +kernel

/-- **ari_textbook.** Outside the code's three special cases (both one cluster / both empty / both all
    singletons) `_adjusted_rand_index` is the Hubert–Arabie quotient on the contingency table, and both of its
    divisions are by strictly positive numbers. -/
theorem ari_textbook (yr ye : List Nat) (h : yr.length = ye.length) (hs : ¬ ariSpecial yr ye) :
    adjustedRandIdx yr ye = .ok
      ((((combSums yr ye).1 : ℚ)
          - ((combSums yr ye).2.1 : ℚ) * ((combSums yr ye).2.2 : ℚ) / (choose2 yr.length : ℚ)) /
       ((((combSums yr ye).2.2 : ℚ) + ((combSums yr ye).2.1 : ℚ)) / 2
          - ((combSums yr ye).2.1 : ℚ) * ((combSums yr ye).2.2 : ℚ) / (choose2 yr.length : ℚ)))
    ∧ (0 : ℚ) < (choose2 yr.length : ℚ)
    ∧ (0 : ℚ) < (((combSums yr ye).2.2 : ℚ) + ((combSums yr ye).2.1 : ℚ)) / 2
        - ((combSums yr ye).2.1 : ℚ) * ((combSums yr ye).2.2 : ℚ) / (choose2 yr.length : ℚ) :=
  ⟨adjustedRandIdx_eq h hs, (ari_den_pos h hs).1, (ari_den_pos h hs).2⟩

/-- **ari_textbook (special cases).** In the three special cases the answer is 1. -/
theorem ari_special (yr ye : List Nat) (hs : ariSpecial yr ye) : adjustedRandIdx yr ye = .ok 1 :=
  adjustedRandIdx_special hs

/-- `_adjusted_rand_index` never raises (no `ZeroDivisionError`) on sequences of equal length. -/
theorem ari_total (yr ye : List Nat) (h : yr.length = ye.length) : ∃ q, adjustedRandIdx yr ye = .ok q :=
  adjustedRandIdx_ok h

example : ¬ ariSpecial [0, 0, 1, 1] [0, 1, 1, 1] ∧ adjustedRandIdx [0, 0, 1, 1] [0, 1, 1, 1] = .ok 0
    ∧ ariSpecial [0, 1, 2] [2, 0, 1] ∧ ariSpecial [5, 5] [1, 1] := by decide +kernel

/-- **ari_self.** ARI = 1 whenever the two label sequences induce the same partition of the frames
    (whatever the label names, including one cluster and all singletons). -/
theorem ari_self (yr ye : List Nat) (h : yr.length = ye.length) (hp : SamePartition yr ye) :
    adjustedRandIdx yr ye = .ok 1 :=
  adjustedRandIdx_self h hp

example : SamePartition [0, 0, 1, 2, 1] [3, 3, 0, 1, 0] ∧
    adjustedRandIdx [0, 0, 1, 2, 1] [3, 3, 0, 1, 0] = .ok 1 ∧ ¬ ariSpecial [0, 0, 1, 2, 1] [3, 3, 0, 1, 0] := by
  refine ⟨?_, by decide +kernel, by decide +kernel⟩
  unfold SamePartition
  decide +kernel

/-- ARI never exceeds 1. -/
theorem ari_le_one (yr ye : List Nat) (h : yr.length = ye.length) (q : ℚ)
    (hq : adjustedRandIdx yr ye = .ok q) : q ≤ 1 :=
  adjustedRandIdx_le_one h hq

/-- **v_eq_nce_marginal.** `vmeasure` is `nce(marginal=True)` — for the public function and for its body at
    every number type. -/
theorem v_eq_nce_marginal (A : Annot) (fs beta : ℚ) : vmeasure A fs beta = nce A fs beta true := rfl

theorem v_eq_nce_marginal_idx {α : Type} [Transc α] (yr ye : List Nat) (beta : α) :
    vmeasureIdx yr ye beta = nceIdx yr ye beta true := rfl

/-- **v_is_harmonic_mean.** Over the reals and at `beta = 1`, the third component of V-measure / NCE is the
    harmonic mean `2PR/(P+R)` of the first two (0 when both vanish). -/
theorem v_is_harmonic_mean (yr ye : List Nat) (marginal : Bool) :
    (nceIdx (α := ℝ) yr ye (Transc.ofNat 1) marginal).2.2 =
      if (nceIdx (α := ℝ) yr ye (Transc.ofNat 1) marginal).1 = 0 ∧
         (nceIdx (α := ℝ) yr ye (Transc.ofNat 1) marginal).2.1 = 0 then 0
      else 2 * (nceIdx (α := ℝ) yr ye (Transc.ofNat 1) marginal).1 *
               (nceIdx (α := ℝ) yr ye (Transc.ofNat 1) marginal).2.1 /
           ((nceIdx (α := ℝ) yr ye (Transc.ofNat 1) marginal).1 +
            (nceIdx (α := ℝ) yr ye (Transc.ofNat 1) marginal).2.1) :=
  fMeasureT_real_one _ _

example : (2 : ℝ) * (1/2) * (1/3) / ((1/2) + (1/3)) = 2/5 := by norm_num

/-- **mi_symm.** Over the reals, MI(a, b) = MI(b, a) for label sequences of equal length. -/
theorem mi_symm (yr ye : List Nat) (h : yr.length = ye.length) :
    mutualInfoIdx (α := ℝ) ye yr = mutualInfoIdx (α := ℝ) yr ye :=
  mutualInfoIdx_real_symm h

/-- **mi_textbook.** Over the reals, the code's `log a − log b` arrangement of `_mutual_info_score` equals
    `Σ_ij p_ij log(p_ij / (p_i p_j))` with `p_ij = n_ij / n`, `p_i = a_i / n`, `p_j = b_j / n`. -/
theorem mi_textbook (yr ye : List Nat) (h : yr.length = ye.length) :
    mutualInfoIdx (α := ℝ) yr ye =
      ((classes yr).map fun x => ((classes ye).map fun y =>
        let pij : ℝ := (((yr.zip ye).countP fun p => p.1 == x && p.2 == y : Nat) : ℝ) / (yr.length : ℝ)
        pij * Real.log (pij / (((yr.count x : ℝ) / yr.length) * ((ye.count y : ℝ) / yr.length)))).sum).sum :=
  mutualInfoIdx_real_textbook h

/-- **mi_nonneg.** Over the reals the double sum is non-negative (Gibbs), so the `np.clip(·, 0, None)` that
    `_mutual_info_score` applies (it only removes rounding noise in binary64) never changes the value. -/
theorem mi_nonneg (yr ye : List Nat) (h : yr.length = ye.length) :
    0 ≤ mutualInfoIdx (α := ℝ) yr ye ∧ mutualInfoIdx (α := ℝ) yr ye = miSum yr ye :=
  ⟨mutualInfoIdx_real_nonneg h, mutualInfoIdx_real h⟩

/-- **empty_scalar.** On an empty reference or estimate `rand_index` and `ari` return the scalar `0.0`
    (whenever they return at all, i.e. the other annotation validates). -/
theorem rand_ari_empty_scalar (A : Annot) (fs : ℚ) (h : A.refIvs = [] ∨ A.estIvs = []) :
    (∀ v, randIndex A fs = .ok v → v = .rat 0) ∧ (∀ v, ari A fs = .ok v → v = .rat 0) := by
  have hp : ∀ r, prologue A fs = .ok r → r = none := by
    intro r hr
    unfold prologue at hr
    cases hv : validateStructure A.refIvs A.refLabs.length A.estIvs A.estLabs.length with
    | error e => rw [hv] at hr; cases hr
    | ok u =>
      rw [hv] at hr
      have hc : (A.refIvs.isEmpty = true ∨ A.estIvs.isEmpty = true) := by
        rcases h with h | h <;> simp [h]
      simp only [hc, if_true] at hr
      cases hr; rfl
  constructor
  · intro v hv
    unfold randIndex at hv
    cases hq : prologue A fs with
    | error e => rw [hq] at hv; cases hv
    | ok r =>
      have := hp r hq
      subst this
      rw [hq] at hv
      cases hv; rfl
  · intro v hv
    unfold ari at hv
    cases hq : prologue A fs with
    | error e => rw [hq] at hv; cases hv
    | ok r =>
      have := hp r hq
      subst this
      rw [hq] at hv
      cases hv; rfl

example : prologue ⟨[], [], [(0, 1)], [['a']]⟩ 1 = .ok none := by decide +kernel

example : classes [0, 0, 1, 1] = [0, 1] ∧ classes [0, 1, 1, 1] = [0, 1] ∧
    contingency [0, 0, 1, 1] [0, 1, 1, 1] = [[1, 1], [0, 2]] := by decide +kernel

/-- **indexLabels_caseInsensitive.** Two frames receive the same index iff their labels agree after
    lower-casing: labels are compared case-insensitively and by equality only. -/
theorem indexLabels_caseInsensitive (labels : List (Option Label)) (i j : Nat)
    (hi : i < labels.length) (hj : j < labels.length) :
    (indexLabels labels)[i]'(by simp [indexLabels, indexNorm, hi]) =
      (indexLabels labels)[j]'(by simp [indexLabels, indexNorm, hj]) ↔
    normLabel labels[i] = normLabel labels[j] :=
  indexLabels_getElem_eq_iff labels i j hi hj

example : indexLabels [some ['V', 'e', 'r', 's', 'e'], some ['c', 'h'], some ['V', 'E', 'R', 'S', 'E'],
    some ['C', 'h'], none] = [2, 0, 2, 0, 1] := by
  decide +kernel

/-- **scores_caseInsensitive.** Changing the case of any label changes none of the six scores. -/
theorem scores_caseInsensitive (A A' : Annot) (fs beta : ℚ) (marginal : Bool)
    (hri : A.refIvs = A'.refIvs) (hei : A.estIvs = A'.estIvs)
    (hr : A.refLabs.map (List.map Char.toLower) = A'.refLabs.map (List.map Char.toLower))
    (he : A.estLabs.map (List.map Char.toLower) = A'.estLabs.map (List.map Char.toLower)) :
    pairwise A fs beta = pairwise A' fs beta ∧ randIndex A fs = randIndex A' fs ∧ ari A fs = ari A' fs ∧
    mutualInformation A fs = mutualInformation A' fs ∧ nce A fs beta marginal = nce A' fs beta marginal ∧
    vmeasure A fs beta = vmeasure A' fs beta := by
  have hp := prologue_caseInsensitive fs hri hei hr he
  unfold pairwise randIndex ari mutualInformation vmeasure nce
  rw [hp]
  exact ⟨rfl, rfl, rfl, rfl, rfl, rfl⟩

example : ([['V', 'e'], ['C', 'H']].map (List.map Char.toLower) = [['v', 'e'], ['C', 'h']].map (List.map Char.toLower)) ∧
    frameIndices [(0, 2), (2, 4)] [['V', 'e'], ['C', 'H']] 1 = [1, 1, 0, 0] ∧
    frameIndices [(0, 2), (2, 4)] [['v', 'e'], ['C', 'h']] 1 = [1, 1, 0, 0] ∧
    pairwiseIdx [1, 1, 0, 0] [0, 1, 1, 1] 1 = .ok (.val (1/3), .val (1/2), .val (2/5)) := by decide +kernel

/-! ### textbook forms of the entropy-based scores over the reals

  Notation (definitions in `MirProofs/Lemmas/SegmentText.lean`): for frame-label index sequences of length `n`,
  `margP y c = n_c / n`, `jointP yr ye x y = n_xy / n`,
  `shannon y = −Σ_c p_c log p_c` (nats), `condEntropy2 yr ye = −Σ_x Σ_y p_xy log₂(p_xy / p_x)` (= H₂(ye | yr), bits),
  `miSum yr ye` = the MI double sum (`mi_textbook`), `miSpecial` = the code's early return (both sides one
  cluster, or both empty), `emiText` = the hypergeometric expectation of MI written with binomials. -/

/-- **entropy_textbook.** `_entropy(labels)` — which the code evaluates as `−Σ (n_c/n)·(log n_c − log n)` over
    the non-empty classes — is the Shannon entropy `−Σ_c p_c log p_c`, `p_c = n_c / n`, over the reals; an empty
    labelling gets the code's conventional `1.0`. -/
theorem entropy_textbook (y : List Nat) :
    entropyIdx (α := ℝ) y =
      if y.length = 0 then 1
      else -((classes y).map fun c =>
        ((y.count c : ℝ) / (y.length : ℝ)) * Real.log ((y.count c : ℝ) / (y.length : ℝ))).sum :=
  entropyIdx_real y

/-- The Shannon entropy is non-negative, and positive exactly when there are at least two clusters. -/
theorem entropy_nonneg_pos_iff (y : List Nat) :
    0 ≤ shannon y ∧ (0 < shannon y ↔ 1 < (classes y).length) :=
  ⟨shannon_nonneg y, shannon_pos_iff y⟩

example : entropyIdx (α := ℝ) [0, 0, 1, 1] = Real.log 2 := by
  have hc : classes [0, 0, 1, 1] = [0, 1] := by decide +kernel
  rw [entropy_textbook, hc]
  have h2 : Real.log ((1 : ℝ) / 2) = -Real.log 2 := by
    rw [one_div, Real.log_inv]
  norm_num [h2]
  ring

example : entropyIdx (α := ℝ) [] = 1 := by rw [entropy_textbook]; simp

/-- **nmi_textbook.** Outside the early return, `_normalized_mutual_info_score` over the reals is
    `MI / max(√(H(ref)·H(est)), 1e-10)`: numerator the textbook MI, denominator the geometric mean of the two
    Shannon entropies floored at `1e-10` (the code's `max(…, 1e-10)`). -/
theorem nmi_textbook (yr ye : List Nat) (h : yr.length = ye.length) (hs : ¬ miSpecial yr ye) :
    (nmiIdx (α := ℝ) yr ye).1 =
      miSum yr ye / max (Real.sqrt (shannon yr * shannon ye)) (1 / 10 ^ 10) := by
  rw [nmiIdx_real h hs]

/-- When the floor is not active (the geometric mean of the entropies is at least `1e-10`),
    NMI is exactly `MI / √(H(ref)·H(est))`. -/
theorem nmi_textbook_unfloored (yr ye : List Nat) (h : yr.length = ye.length) (hs : ¬ miSpecial yr ye)
    (hf : (1 : ℝ) / 10 ^ 10 ≤ Real.sqrt (shannon yr * shannon ye)) :
    (nmiIdx (α := ℝ) yr ye).1 = miSum yr ye / Real.sqrt (shannon yr * shannon ye) := by
  rw [nmi_textbook yr ye h hs, max_eq_left hf]

/-- NMI / AMI early return: both labellings one cluster, or both empty, give `1.0` (at every number type). -/
theorem nmi_ami_special {α : Type} [Transc α] (yr ye : List Nat) (hs : miSpecial yr ye) :
    (nmiIdx (α := α) yr ye).1 = Transc.ofNat 1 ∧ (amiIdx (α := α) yr ye).1 = Transc.ofNat 1 := by
  rw [nmiIdx_special hs, amiIdx_special hs]
  exact ⟨rfl, rfl⟩

example : ¬ miSpecial [0, 0, 1, 1] [0, 1, 1, 1] ∧ miSpecial [5, 5] [1, 1] ∧ miSpecial [] [] ∧
    ¬ miSpecial [0, 0] [0, 1] := by decide +kernel

/-- the hypotheses of `nmi_textbook_unfloored` are satisfiable: two balanced two-cluster labellings have
    `√(H·H') = log 2 ≥ 1/2`. -/
example : ¬ miSpecial [0, 0, 1, 1] [0, 1, 0, 1] ∧
    (1 : ℝ) / 10 ^ 10 ≤ Real.sqrt (shannon [0, 0, 1, 1] * shannon [0, 1, 0, 1]) := by
  refine ⟨by decide +kernel, ?_⟩
  have h2 : Real.log ((1 : ℝ) / 2) = -Real.log 2 := by rw [one_div, Real.log_inv]
  have hA : shannon [0, 0, 1, 1] = Real.log 2 := by
    have hc : classes [0, 0, 1, 1] = [0, 1] := by decide +kernel
    unfold shannon margP
    rw [hc]
    norm_num [h2]
    ring
  have hB : shannon [0, 1, 0, 1] = Real.log 2 := by
    have hc : classes [0, 1, 0, 1] = [0, 1] := by decide +kernel
    unfold shannon margP
    rw [hc]
    norm_num [h2]
    ring
  have hl : (1 : ℝ) / 2 ≤ Real.log 2 := by
    have := Real.one_sub_inv_le_log_of_pos (x := 2) (by norm_num)
    norm_num at this ⊢
    linarith
  rw [hA, hB, Real.sqrt_mul_self (by linarith)]
  have : (1 : ℝ) / 10 ^ 10 ≤ 1 / 2 := by norm_num
  linarith

/-- **nce_textbook.** Over the reals the body of `segment.nce` returns
    `S_over = 1 − H₂(est | ref) / Z_est`, `S_under = 1 − H₂(ref | est) / Z_ref` and `util.f_measure` of the two,
    where `Z = log₂(number of clusters)` for `marginal = False` and `Z = H(·)/log 2` (the marginal entropy in
    bits) for `marginal = True`; a score whose normaliser is not positive is `0` (the code's convention). -/
theorem nce_textbook (yr ye : List Nat) (h : yr.length = ye.length) (beta : ℝ) (marginal : Bool) :
    nceIdx (α := ℝ) yr ye beta marginal =
      (let zRef : ℝ := if marginal then shannon yr / Real.log 2 else Real.logb 2 ((classes yr).length : ℝ)
       let zEst : ℝ := if marginal then shannon ye / Real.log 2 else Real.logb 2 ((classes ye).length : ℝ)
       let over : ℝ := if 0 < zEst then 1 - condEntropy2 yr ye / zEst else 0
       let under : ℝ := if 0 < zRef then 1 - condEntropy2 ye yr / zRef else 0
       (over, under, fMeasureT over under beta)) :=
  nceIdx_real h beta marginal

/-- **nce_textbook (`marginal = False`).** `S_over = 1 − H₂(est | ref)/log₂ k_est` when the estimate has at least
    two clusters and `0` otherwise; `S_under = 1 − H₂(ref | est)/log₂ k_ref` when the reference has at least two
    clusters and `0` otherwise. -/
theorem nce_over_under_textbook (yr ye : List Nat) (h : yr.length = ye.length) (beta : ℝ) :
    (nceIdx (α := ℝ) yr ye beta false).1 =
        (if 1 < (classes ye).length then 1 - condEntropy2 yr ye / Real.logb 2 ((classes ye).length : ℝ) else 0) ∧
    (nceIdx (α := ℝ) yr ye beta false).2.1 =
        (if 1 < (classes yr).length then 1 - condEntropy2 ye yr / Real.logb 2 ((classes yr).length : ℝ) else 0) := by
  rw [nceIdx_real h]
  simp only [Bool.false_eq_true, if_false, logb_two_natCast_pos_iff]
  exact ⟨trivial, trivial⟩

/-- **v_textbook.** For the V-measure (`marginal = True`) the two scores are `1 − H(est | ref)/H(est)` and
    `1 − H(ref | est)/H(ref)` (entropies in the same unit), `0` when the normalising entropy is `0`. -/
theorem v_textbook (yr ye : List Nat) (h : yr.length = ye.length) (beta : ℝ) :
    (vmeasureIdx (α := ℝ) yr ye beta).1 =
        (if 0 < shannon ye then 1 - (Real.log 2 * condEntropy2 yr ye) / shannon ye else 0) ∧
    (vmeasureIdx (α := ℝ) yr ye beta).2.1 =
        (if 0 < shannon yr then 1 - (Real.log 2 * condEntropy2 ye yr) / shannon yr else 0) := by
  have hl2 : 0 < Real.log 2 := Real.log_pos (by norm_num)
  have key : ∀ (H C : ℝ), (if 0 < H / Real.log 2 then 1 - C / (H / Real.log 2) else 0) =
      (if 0 < H then 1 - (Real.log 2 * C) / H else 0) := by
    intro H C
    have : 0 < H / Real.log 2 ↔ 0 < H := by
      constructor
      · intro hq
        have := mul_pos hq hl2
        rwa [div_mul_cancel₀ _ (ne_of_gt hl2)] at this
      · intro hp; exact div_pos hp hl2
    simp only [this]
    split
    · field_simp
    · rfl
  unfold vmeasureIdx
  rw [nceIdx_real h]
  simp only [if_true]
  exact ⟨key _ _, key _ _⟩

/-- **v_is_mi_over_entropy.** Equivalently (chain rule) the V-measure scores are `MI/H(est)` and `MI/H(ref)`,
    `0` when the labelling concerned has fewer than two clusters. -/
theorem v_is_mi_over_entropy (yr ye : List Nat) (h : yr.length = ye.length) (beta : ℝ) :
    (vmeasureIdx (α := ℝ) yr ye beta).1 =
        (if 1 < (classes ye).length then miSum yr ye / shannon ye else 0) ∧
    (vmeasureIdx (α := ℝ) yr ye beta).2.1 =
        (if 1 < (classes yr).length then miSum yr ye / shannon yr else 0) :=
  vmeasure_real h beta

/-- **mi_chain_rule.** `MI(ref, est) = H(est) − H(est | ref)` (the conditional entropy converted from bits). -/
theorem mi_chain_rule (yr ye : List Nat) (h : yr.length = ye.length) :
    mutualInfoIdx (α := ℝ) yr ye = shannon ye - Real.log 2 * condEntropy2 yr ye := by
  rw [mutualInfoIdx_real h, miSum_chain h]

example : (classes [0, 0, 1, 1]).length = 2 ∧ (classes [0, 1, 1, 1]).length = 2 ∧ (classes [3, 3]).length = 1 := by
  decide +kernel

/-- **lgamma.** The model's `gammaln(k + 1)` (the sum `log 2 + … + log k`) is `log k!` over the reals. -/
theorem lgamma_log_factorial (k : Nat) : lgammaSucc (α := ℝ) k = Real.log ((k.factorial : ℕ) : ℝ) :=
  lgammaSucc_real k

example : lgammaSucc (α := ℝ) 3 = Real.log 6 := by
  rw [lgamma_log_factorial]; norm_num [Nat.factorial]

/-- **emi_loop_textbook.** For arbitrary margin vectors `a`, `b` and total `n`, the triple loop of
    `_adjusted_mutual_info_score` computes, over the reals,
    `Σ_i Σ_j Σ_{n_ij = max(a_i+b_j−n, 1)}^{min(a_i, b_j)} (n_ij/n) · log(n·n_ij/(a_i b_j)) · Hyp(n_ij; a_i, b_j, n)`
    with `Hyp = a_i! b_j! (n−a_i)! (n−b_j)! / (n! n_ij! (a_i−n_ij)! (b_j−n_ij)! (n−a_i−b_j+n_ij)!)`
    (`hypFact`, the `exp` of the code's `gammaln` combination). -/
theorem emi_loop_textbook (a b : List Nat) (n : Nat) :
    expectedMI (α := ℝ) a b n =
      (a.map fun ai => (b.map fun bj =>
        ((List.range' (max (ai + bj - n) 1) (min ai bj + 1 - max (ai + bj - n) 1)).map fun (nij : ℕ) =>
          ((nij : ℝ) / n) * Real.log ((n : ℝ) * nij / ((ai : ℝ) * bj)) * hypFact n ai bj nij).sum).sum).sum :=
  expectedMI_real a b n

/-- **hypergeometric.** Inside the loop's range the factorial quotient is the hypergeometric probability
    `C(a,k)·C(n−a, b−k)/C(n,b)`. -/
theorem hyp_factorial_eq_choose (n a b k : Nat) (ha : a ≤ n) (hb : b ≤ n) (hka : k ≤ a) (hkb : k ≤ b)
    (hlo : a + b ≤ n + k) :
    hypFact n a b k = ((a.choose k : ℝ) * ((n - a).choose (b - k) : ℝ)) / (n.choose b : ℝ) :=
  hypFact_eq_choose ha hb hka hkb hlo

example : hypFact 4 2 3 1 = 1 / 2 ∧ ((Nat.choose 2 1 : ℝ) * (Nat.choose 2 2 : ℝ)) / (Nat.choose 4 3 : ℝ) = 1 / 2 := by
  constructor
  · unfold hypFact; norm_num [Nat.factorial]
  · norm_num [Nat.choose]

/-- **emi_textbook.** On the margins of the contingency table of two equally long label sequences the loop is
    the expected mutual information under the hypergeometric (random permutation) model:
    `Σ_x Σ_y Σ_{k = max(a_x+b_y−n,1)}^{min(a_x,b_y)} (k/n) log(n k/(a_x b_y)) · C(a_x,k) C(n−a_x, b_y−k) / C(n, b_y)`. -/
theorem emi_textbook (yr ye : List Nat) (h : yr.length = ye.length) :
    expectedMI (α := ℝ) (rowSums (contingency yr ye)) (colSums (contingency yr ye) (classes ye).length)
        yr.length =
      ((classes yr).map fun x => ((classes ye).map fun y =>
        ∑ k ∈ Finset.Icc (max (yr.count x + ye.count y - yr.length) 1) (min (yr.count x) (ye.count y)),
          ((k : ℝ) / yr.length) * Real.log ((yr.length : ℝ) * k / ((yr.count x : ℝ) * (ye.count y : ℝ))) *
            ((((yr.count x).choose k : ℕ) : ℝ) * (((yr.length - yr.count x).choose (ye.count y - k) : ℕ) : ℝ) /
              ((yr.length.choose (ye.count y) : ℕ) : ℝ))).sum).sum :=
  expectedMI_table h

/-- **ami_textbook.** Outside the early return, `_adjusted_mutual_info_score` over the reals is
    `(MI − E[MI]) / (max(H(ref), H(est)) − E[MI])` with the textbook MI, Shannon entropies and the
    hypergeometric expectation `emiText` (`emi_textbook`). -/
theorem ami_textbook (yr ye : List Nat) (h : yr.length = ye.length) (hs : ¬ miSpecial yr ye) :
    (amiIdx (α := ℝ) yr ye).1 =
      (miSum yr ye - emiText yr ye) / (max (shannon yr) (shannon ye) - emiText yr ye) := by
  rw [amiIdx_real h hs]

/-- **hypergeometric_weights_sum_one (Vandermonde).** For row sum `a`, column sum `b` and total `n` (`a, b ≤ n`)
    the hypergeometric weights `C(a,k)·C(n−a, b−k)/C(n,b)` over the loop's own range `k = max(1, a+b−n) … min(a,b)`
    plus the `k = 0` weight sum to 1: the loop of `_expected_mutual_info` leaves out no part of the support except
    `k = 0`, where the MI summand `(k/n)·log(…)` is 0. -/
theorem hypergeometric_weights_sum_one (n a b : Nat) (ha : a ≤ n) (hb : b ≤ n) :
    ((a.choose 0 : ℝ) * ((n - a).choose b : ℝ)) / (n.choose b : ℝ) +
      ∑ k ∈ Finset.Icc (max (a + b - n) 1) (min a b),
        ((a.choose k : ℝ) * ((n - a).choose (b - k) : ℝ)) / (n.choose b : ℝ) = 1 :=
  Mir.Hypergeom.weight_zero_add_sum_loop ha hb

/-- the same about the weights as the code computes them (`exp` of the `gammaln` combination, `hypFact`): over the
    loop's range they sum to `1 − P(K = 0) = 1 − C(n−a, b)/C(n,b)`. -/
theorem loop_weights_sum (n a b : Nat) (ha : a ≤ n) (hb : b ≤ n) :
    ∑ k ∈ Finset.Icc (max (a + b - n) 1) (min a b), hypFact n a b k =
      1 - ((n - a).choose b : ℝ) / (n.choose b : ℝ) :=
  hypFact_sum_loop ha hb

/-- the weights are a probability distribution on `k = 0 … min(a,b)`: non-negative, total mass 1, and 0 below
    `a + b − n` (so the support is `max(0, a+b−n) … min(a,b)`). -/
theorem hypergeometric_is_distribution (n a b : Nat) (ha : a ≤ n) (hb : b ≤ n) :
    (∀ k, 0 ≤ ((a.choose k : ℝ) * ((n - a).choose (b - k) : ℝ)) / (n.choose b : ℝ)) ∧
    (∀ k, n + k < a + b → ((a.choose k : ℝ) * ((n - a).choose (b - k) : ℝ)) / (n.choose b : ℝ) = 0) ∧
    (∀ k, a < k → ((a.choose k : ℝ) * ((n - a).choose (b - k) : ℝ)) / (n.choose b : ℝ) = 0) ∧
    ∑ k ∈ Finset.range (min a b + 1),
      ((a.choose k : ℝ) * ((n - a).choose (b - k) : ℝ)) / (n.choose b : ℝ) = 1 :=
  ⟨fun k => Mir.Hypergeom.weight_nonneg n a b k, fun _ h => Mir.Hypergeom.weight_eq_zero_of_lt ha h,
   fun _ h => Mir.Hypergeom.weight_eq_zero_of_gt h, Mir.Hypergeom.weight_sum_range_min ha hb⟩

/-- **emi_is_hypergeometric_expectation.** On the margins of the contingency table of two equally long label
    sequences, the triple loop of `_adjusted_mutual_info_score` is exactly
    `Σ_x Σ_y E[(K/n)·log(n K/(a_x b_y))]` with `K ~ Hypergeometric(n, a_x, b_y)`, the expectation
    (`Mir.Hypergeom.hypExpect`) being the sum over the WHOLE support `k = 0 … min(a_x, b_y)` of summand times
    `C(a_x,k) C(n−a_x, b_y−k)/C(n, b_y)` — a law of total mass 1 (`hypergeometric_total_mass`). -/
theorem emi_is_hypergeometric_expectation (yr ye : List Nat) (h : yr.length = ye.length) :
    expectedMI (α := ℝ) (rowSums (contingency yr ye)) (colSums (contingency yr ye) (classes ye).length)
        yr.length =
      ((classes yr).map fun x => ((classes ye).map fun y =>
        Mir.Hypergeom.hypExpect yr.length (yr.count x) (ye.count y)
          (fun k => ((k : ℝ) / yr.length) *
            Real.log ((yr.length : ℝ) * k / ((yr.count x : ℝ) * (ye.count y : ℝ))))).sum).sum := by
  rw [expectedMI_table h, emiText_eq_hypExpect]
  rfl

/-- total mass 1: under the hypergeometric law the expectation of a constant is that constant. -/
theorem hypergeometric_total_mass (n a b : Nat) (ha : a ≤ n) (hb : b ≤ n) (c : ℝ) :
    Mir.Hypergeom.hypExpect n a b (fun _ => c) = c :=
  Mir.Hypergeom.hypExpect_const ha hb c

example : ((Nat.choose 2 0 : ℝ) * (Nat.choose 2 3 : ℝ)) / (Nat.choose 4 3 : ℝ) = 0 ∧
    Finset.Icc (max (2 + 3 - 4) 1) (min 2 3) = {1, 2} ∧
    ((Nat.choose 2 1 : ℝ) * (Nat.choose 2 2 : ℝ)) / (Nat.choose 4 3 : ℝ) +
      ((Nat.choose 2 2 : ℝ) * (Nat.choose 2 1 : ℝ)) / (Nat.choose 4 3 : ℝ) = 1 := by
  refine ⟨by norm_num [Nat.choose], by decide, by norm_num [Nat.choose]⟩

example : rowSums (contingency [0, 0, 1, 1] [0, 1, 1, 1]) = [2, 2] ∧
    colSums (contingency [0, 0, 1, 1] [0, 1, 1, 1]) 2 = [1, 3] := by decide +kernel

/-! ### the frame sampler is the interval denotation of C13

  `frameLabels ivs labs fs` is what the six metrics are computed from (`frameIndices = indexLabels ∘ frameLabels`).
  Below, an annotation is a list `xs` of labelled rows `(start, end, label)` (`Mir.LI Label`), handed to the segment
  functions as the two arrays `Iv.ivals xs`, `Iv.labels xs`. -/

/-- **frames_are_samples.** The frame labels are exactly the label array of the C13 model of
    `util.intervals_to_samples` (offset 0, `fill_value=None`), whose sample times are `i · fs`, `i < ⌊max/fs⌋`:
    any non-empty list of rows (sorted or not, overlapping or not), any positive frame size. -/
theorem frames_are_samples (xs : LI Label) (fs : ℚ) (hfs : 0 < fs) (hne : xs ≠ []) :
    Iv.intervalsToSamples (someRows xs) 0 fs none =
      .ok (Iv.sampleTimes (numSamples (Iv.ivals xs) fs) fs 0, frameLabels (Iv.ivals xs) (Iv.labels xs) fs) :=
  frameLabels_eq_intervalsToSamples xs fs hfs hne

/-- each frame label is the closed-span denotation `labelAtC` (the later row wins, in particular at a shared
    boundary) at the frame time — whatever the rows -/
theorem frames_are_labelAtC (xs : LI Label) (fs : ℚ) :
    frameLabels (Iv.ivals xs) (Iv.labels xs) fs =
      (List.range (numSamples (Iv.ivals xs) fs)).map fun (i : Nat) => Iv.labelAtC xs ((i : ℚ) * fs) :=
  frameLabels_eq_map_labelAtC xs fs

/-- **frames_are_labelAt.** For a segmentation as `validate_structure` documents it (contiguous rows of positive
    duration starting at or before 0), the frame-label sequence is the annotation's own half-open denotation
    `labelAt` (C13: the label of the row `[s, e)` containing `t`) at the times `0, fs, 2·fs, …`, and every frame
    carries a label (the fill value `None` never appears). -/
theorem frames_are_labelAt {lo : ℚ} {xs : LI Label} (hc : Iv.Contig lo xs) (hlo : lo ≤ 0) {fs : ℚ} (hfs : 0 < fs) :
    frameLabels (Iv.ivals xs) (Iv.labels xs) fs =
        (List.range (numSamples (Iv.ivals xs) fs)).map (fun (i : Nat) => Iv.labelAt xs ((i : ℚ) * fs)) ∧
      ∀ l ∈ frameLabels (Iv.ivals xs) (Iv.labels xs) fs, l ≠ none :=
  frameLabels_eq_labelAt hc hlo hfs

/-- with gaps between the rows (sorted, non-overlapping): wherever the annotation has a label at a frame time,
    the frame carries it -/
theorem frames_carry_labelAt {lo : ℚ} {xs : LI Label} (hc : Iv.Chain lo xs) (fs : ℚ) {i : Nat}
    (hi : i < numSamples (Iv.ivals xs) fs) {l : Label} (h : Iv.labelAt xs ((i : ℚ) * fs) = some l) :
    (frameLabels (Iv.ivals xs) (Iv.labels xs) fs)[i]? = some (some l) :=
  frameLabels_of_labelAt hc fs hi h

/-- **frames_with_gaps.** For ANY sorted, non-overlapping annotation (gaps allowed, `Iv.Chain`) the frame-label
    sequence is completely described by the half-open denotation: frame `i` carries `labelAt` at its time `i·fs`
    where that is defined, and otherwise — in a gap, before the first or after the last row — the label of the row
    that ENDS exactly at that time if there is one (`Iv.endLabel`: the code samples closed spans), else the fill
    value `None`.  `frames_are_labelAt` is the gap-free case, `frames_carry_labelAt` the first clause. -/
theorem frames_with_gaps {lo : ℚ} {xs : LI Label} (hc : Iv.Chain lo xs) (fs : ℚ) :
    frameLabels (Iv.ivals xs) (Iv.labels xs) fs =
      (List.range (numSamples (Iv.ivals xs) fs)).map fun (i : Nat) =>
        (Iv.labelAt xs ((i : ℚ) * fs)).or (Iv.endLabel xs ((i : ℚ) * fs)) := by
  rw [frameLabels_eq_map_labelAtC]
  apply List.map_congr_left
  intro i _
  exact Iv.labelAtC_chain hc _

example : Iv.Chain 0 [((0 : ℚ), (1 : ℚ), ['a']), (2, 3, ['b'])] ∧
    frameLabels [(0, 1), (2, 3)] [['a'], ['b']] (1/2) =
      [some ['a'], some ['a'], some ['a'], none, some ['b'], some ['b']] ∧
    Iv.labelAt [((0 : ℚ), (1 : ℚ), ['a']), (2, 3, ['b'])] 1 = none ∧
    Iv.endLabel [((0 : ℚ), (1 : ℚ), ['a']), (2, 3, ['b'])] 1 = some ['a'] := by
  refine ⟨⟨?_, ?_, ?_, ?_, trivial⟩, ?_, ?_, ?_⟩ <;> decide +kernel

example : Iv.Contig 0 [((0 : ℚ), (1 : ℚ), ['a']), (1, 2, ['b'])] ∧
    frameLabels [(0, 1), (1, 2)] [['a'], ['b']] (1/2) = [some ['a'], some ['a'], some ['b'], some ['b']] ∧
    (List.range 4).map (fun (i : Nat) => Iv.labelAt [((0 : ℚ), (1 : ℚ), ['a']), (1, 2, ['b'])] ((i : ℚ) * (1/2))) =
      [some ['a'], some ['a'], some ['b'], some ['b']] ∧
    Iv.intervalsToSamples (someRows [((0 : ℚ), (1 : ℚ), ['a']), (1, 2, ['b'])]) 0 (1/2) none =
      .ok ([0, 1/2, 1, 3/2], [some ['a'], some ['a'], some ['b'], some ['b']]) := by
  refine ⟨⟨?_, ?_, ?_, ?_, trivial⟩, ?_, ?_, ?_⟩ <;> decide +kernel

end Mir.C16
