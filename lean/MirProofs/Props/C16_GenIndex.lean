import MirGen.SegIndex
import MirGen.Scalars
import MirProofs.Lemmas.PyMat
import MirProofs.Props.C16
import MirProofs.Props.C06_Gen
/-!
  C16 (regenerated) — the clustering-index functions of `mir_eval/segment.py` AS TRANSLATED from the source on every
  run (`lean/MirGen/SegIndex.lean`, harness/translate/segindex.py: `_contingency_matrix`, `_adjusted_rand_index`, and
  the bodies of `pairwise`, `rand_index`, `ari` — split into `<f>_core` over the two frame-label index vectors and the
  validation / sampling prologue `<f>`) equal the hand-written model `MirModel/Segment.lean`, for ALL label sequences
  (any length: empty, one frame, all distinct, one label, unequal lengths).  Consequence: the C16 statements (pair
  counts = contingency binomial sums, textbook pairwise / Rand / ARI, ARI ≤ 1, ARI = 1 on coinciding partitions) are
  theorems about the code as translated; they are re-exported below on the translated definitions, with the
  binomial sums read off the TRANSLATED contingency matrix (`np.unique(return_inverse)` + COO scatter).

  The `_eq_model` proofs are written against the *shape* of the generated definitions, not their text: the special-case
  guard of `_adjusted_rand_index` is compared with the model's by `omega`, every rational expression by
  `push_cast; ring`, `~(A | B)` is normalised to `~A & ~B`; renamed locals and reordered independent statements do not
  reach the proof terms at all (`let`s are transparent).
-/
namespace Mir.C16.GenIndex
open Mir Mir.Segment
open Mir.PyM (ok_bind error_bind divF_bind_divF pairs_shape rand_shape checkLen_pure)

/-! ### `_contingency_matrix` -/

/-- the hand-written reading of `_contingency_matrix` as a partial function: the table `contingency` with its shape,
    `ValueError` (from `coo_matrix`) when the two index arrays differ in length -/
def contingencyPy (yr ye : List Nat) : Py (PyM.Mat Nat) :=
  if yr.length ≠ ye.length then .error .valueError
  else .ok ⟨(classes yr).length, (classes ye).length, contingency yr ye⟩

/-- **`_contingency_matrix` as translated = the hand model's table**, for all index arrays: the
    `np.unique(return_inverse=True)` + COO scatter of ones is the count of frames per (reference class, estimated
    class), rows and columns in ascending class order, shape (#reference classes, #estimated classes). -/
theorem _contingency_matrix_eq_model (yr ye : List Nat) :
    Mir.Gen.segment._contingency_matrix yr ye = contingencyPy yr ye := by
  unfold Mir.Gen.segment._contingency_matrix contingencyPy PyM.uniqueInverse
  simp only [PyM.unique_eq, PyM.shape0_eq]
  exact PyM.cooToArray_contingency yr ye

example : Mir.Gen.segment._contingency_matrix [0, 0, 1, 1] [0, 1, 1, 1] = .ok ⟨2, 2, [[1, 1], [0, 2]]⟩ ∧
    Mir.Gen.segment._contingency_matrix [5, 2, 2, 9] [1, 1, 0, 3] = .ok ⟨3, 3, [[1, 1, 0], [0, 1, 0], [0, 0, 1]]⟩ ∧
    Mir.Gen.segment._contingency_matrix [] [] = .ok ⟨0, 0, []⟩ ∧
    Mir.Gen.segment._contingency_matrix [0, 1] [0] = .error .valueError := by decide +kernel

/-! ### `_adjusted_rand_index` -/

set_option linter.unusedSimpArgs false in
/-- **`_adjusted_rand_index` as translated = the hand model**, for all index arrays (value or exception: the
    early `1.0`, the `ValueError` of unequal lengths, the two `ZeroDivisionError`s of Python float division). -/
theorem _adjusted_rand_index_eq_model (yr ye : List Nat) :
    Mir.Gen.segment._adjusted_rand_index yr ye = adjustedRandIdx yr ye := by
  unfold Mir.Gen.segment._adjusted_rand_index adjustedRandIdx
  rw [_contingency_matrix_eq_model]
  unfold contingencyPy
  simp only [Bool.or_eq_true, Bool.and_eq_true, decide_eq_true_eq]
  simp only [PyM.unique_eq, PyM.shape0_eq, PyM.len_eq]
  refine if_congr ?_ rfl ?_
  · omega
  · by_cases hl : yr.length = ye.length
    · simp only [hl, ne_eq, not_true_eq_false, if_false]
      rw [ok_bind]
      refine divF_bind_divF ?_ ?_ ?_ ?_ <;>
        (try simp only [PyM.sumAxis1_mk, PyM.sumAxis0_mk, PyM.flatten_mk, PyM.pySum_eq, PyM.comb2_eq, PyM.comb2F_eq,
          combSums]) <;> (try push_cast) <;> (try ring)
    · simp only [hl, ne_eq, not_false_eq_true, if_true]
      rfl

example : Mir.Gen.segment._adjusted_rand_index [0, 0, 1, 1] [0, 1, 1, 1] = .ok 0 ∧
    Mir.Gen.segment._adjusted_rand_index [0, 0, 1, 2, 1] [3, 3, 0, 1, 0] = .ok 1 ∧
    Mir.Gen.segment._adjusted_rand_index [0, 0, 1, 1, 2] [0, 0, 1, 2, 2] = .ok (3/8) ∧
    Mir.Gen.segment._adjusted_rand_index [] [] = .ok 1 ∧ Mir.Gen.segment._adjusted_rand_index [7] [3] = .ok 1 ∧
    Mir.Gen.segment._adjusted_rand_index [0, 1] [0] = .error .valueError := by decide +kernel

/-! ### the bodies of `pairwise`, `rand_index`, `ari` on the two frame-label index vectors -/

set_option linter.unusedSimpArgs false in
/-- **the body of `pairwise` as translated = the hand model** (`pairwiseIdx`), for all index vectors and every beta —
    including the path where a side has no co-labelled pair (`n_agree = 0`): there both say `nan` (precision or recall
    `0/0`, and F through `util.f_measure` on a nan), the known finding recorded for C01/C14; nothing is excluded. -/
theorem pairwise_core_eq_model (yr ye : List Nat) (beta : ℚ) :
    Mir.Gen.segment.pairwise_core yr ye beta = pairwiseIdx yr ye beta := by
  unfold Mir.Gen.segment.pairwise_core pairwiseIdx pairCounts
  simp only [PyM.equalOuter_self, PyM.logicalNot_eq, PyM.logicalAnd_eqMat, PyM.sumBool_eq, PyM.len_eq, PyM.divNp_eq,
    PyM.f_measure_np_eq]
  by_cases hl : yr.length = ye.length
  · simp only [if_pos hl, if_pos hl.symm, if_neg (not_not.2 hl), ok_bind]
    try rw [PyM.matAnd_comm (eqMat ye) (eqMat yr)]      -- `np.logical_and` with its operands exchanged
    refine pairs_shape beta ?_ ?_ ?_ <;> (try push_cast) <;> (try ring)
  · simp only [if_neg hl, if_neg (Ne.symm hl), error_bind]
    rw [if_pos hl]

example : Mir.Gen.segment.pairwise_core [0, 0, 1, 1] [0, 1, 1, 1] 1 = .ok (.val (1/3), .val (1/2), .val (2/5)) ∧
    Mir.Gen.segment.pairwise_core [0, 1] [0, 0] 1 = .ok (.val 0, .nan, .nan) ∧
    Mir.Gen.segment.pairwise_core [0] [0] 1 = .ok (.nan, .nan, .nan) ∧
    Mir.Gen.segment.pairwise_core [] [] 2 = .ok (.nan, .nan, .nan) ∧
    Mir.Gen.segment.pairwise_core [0, 0] [0] 1 = .error .valueError := by decide +kernel

set_option linter.unusedSimpArgs false in
/-- **the body of `rand_index` as translated = the hand model** (`randIdx`), for all index vectors (fewer than two
    frames: `nan`, as the code). -/
theorem rand_index_core_eq_model (yr ye : List Nat) :
    Mir.Gen.segment.rand_index_core yr ye = randIdx yr ye := by
  unfold Mir.Gen.segment.rand_index_core randIdx randCounts
  simp only [PyM.equalOuter_self, PyM.logicalNot_eq, PyM.logicalAnd_eqMat, PyM.logicalAnd_not_eqMat,
    PyM.logicalOr_eqMat, PyM.sumBool_eq, PyM.len_eq, PyM.divNp_eq]
  by_cases hl : yr.length = ye.length
  · simp only [if_pos hl, if_pos hl.symm, if_neg (not_not.2 hl), ok_bind, PyM.matNot_zipWith_or]
    try rw [PyM.matAnd_comm (eqMat ye) (eqMat yr)]      -- `np.logical_and` with its operands exchanged
    try rw [PyM.matAnd_comm (matNot (eqMat ye)) (matNot (eqMat yr))]
    refine rand_shape ?_ ?_ <;> (try push_cast) <;> (try ring)
  · simp only [if_neg hl, if_neg (Ne.symm hl), error_bind]
    rw [if_pos hl]

example : Mir.Gen.segment.rand_index_core [0, 0, 1, 1] [0, 1, 1, 1] = .ok (.val (1/2)) ∧
    Mir.Gen.segment.rand_index_core [0] [0] = .ok .nan ∧
    Mir.Gen.segment.rand_index_core [0, 1, 2] [0, 0] = .error .valueError := by decide +kernel

set_option linter.unusedSimpArgs false in
/-- **the body of `ari` as translated** is `_adjusted_rand_index` on the two index vectors. -/
theorem ari_core_eq_model (yr ye : List Nat) : Mir.Gen.segment.ari_core yr ye = adjustedRandIdx yr ye := by
  unfold Mir.Gen.segment.ari_core
  simp only [_adjusted_rand_index_eq_model, bind_pure]

/-! ### the public functions (validation, empty-annotation return, frame sampling are EXTERNS = the hand model's) -/

/-- **`segment.pairwise` as translated = the hand model's `Segment.pairwise`** on every annotation pair, frame size
    and beta (the model returns protocol values: `Segment.triple` encodes the three numbers). -/
theorem pairwise_eq_model (ri : List (ℚ × ℚ)) (rl : List Label) (ei : List (ℚ × ℚ)) (el : List Label) (fs beta : ℚ) :
    (Mir.Gen.segment.pairwise ri rl ei el fs beta).map Segment.triple = Segment.pairwise ⟨ri, rl, ei, el⟩ fs beta := by
  unfold Mir.Gen.segment.pairwise Segment.pairwise Segment.prologue PyM.validate_structure
  cases hv : validateStructure ri rl.length ei el.length with
  | error e => rfl
  | ok u =>
    simp only [ok_bind, PyM.size2_eq_zero, Bool.or_eq_true]
    by_cases he : ri.isEmpty = true ∨ ei.isEmpty = true
    · simp only [if_pos he]; rfl
    · simp only [if_neg he, pure_bind]
      rw [pairwise_core_eq_model]
      unfold PyM.index_labels_indices PyM.intervals_to_samples_labels frameIndices
      cases pairwiseIdx (indexLabels (frameLabels ri rl fs)) (indexLabels (frameLabels ei el fs)) beta <;> rfl

/-- **`segment.rand_index` as translated = `Segment.randIndex`** (`beta` is accepted and ignored by the code). -/
theorem rand_index_eq_model (ri : List (ℚ × ℚ)) (rl : List Label) (ei : List (ℚ × ℚ)) (el : List Label) (fs beta : ℚ) :
    (Mir.Gen.segment.rand_index ri rl ei el fs beta).map Segment.Num.toVal = Segment.randIndex ⟨ri, rl, ei, el⟩ fs := by
  unfold Mir.Gen.segment.rand_index Segment.randIndex Segment.prologue PyM.validate_structure
  cases hv : validateStructure ri rl.length ei el.length with
  | error e => rfl
  | ok u =>
    simp only [ok_bind, PyM.size2_eq_zero, Bool.or_eq_true]
    by_cases he : ri.isEmpty = true ∨ ei.isEmpty = true
    · simp only [if_pos he]; rfl
    · simp only [if_neg he, pure_bind]
      rw [rand_index_core_eq_model]
      unfold PyM.index_labels_indices PyM.intervals_to_samples_labels frameIndices
      cases randIdx (indexLabels (frameLabels ri rl fs)) (indexLabels (frameLabels ei el fs)) <;> rfl

/-- **`segment.ari` as translated = `Segment.ari`**. -/
theorem ari_eq_model (ri : List (ℚ × ℚ)) (rl : List Label) (ei : List (ℚ × ℚ)) (el : List Label) (fs : ℚ) :
    (Mir.Gen.segment.ari ri rl ei el fs).map Val.rat = Segment.ari ⟨ri, rl, ei, el⟩ fs := by
  unfold Mir.Gen.segment.ari Segment.ari Segment.prologue PyM.validate_structure
  cases hv : validateStructure ri rl.length ei el.length with
  | error e => rfl
  | ok u =>
    simp only [ok_bind, PyM.size2_eq_zero, Bool.or_eq_true]
    by_cases he : ri.isEmpty = true ∨ ei.isEmpty = true
    · simp only [if_pos he]; rfl
    · simp only [if_neg he, pure_bind]
      rw [ari_core_eq_model]
      unfold PyM.index_labels_indices PyM.intervals_to_samples_labels frameIndices
      cases adjustedRandIdx (indexLabels (frameLabels ri rl fs)) (indexLabels (frameLabels ei el fs)) <;> rfl

/-- the defaults of the translated definitions are the source's `frame_size=0.1`, `beta=1.0` -/
theorem pairwise_defaults (ri : List (ℚ × ℚ)) (rl : List Label) (ei : List (ℚ × ℚ)) (el : List Label) :
    Mir.Gen.segment.pairwise ri rl ei el = Mir.Gen.segment.pairwise ri rl ei el (1 / 10) 1 ∧
    Mir.Gen.segment.rand_index ri rl ei el = Mir.Gen.segment.rand_index ri rl ei el (1 / 10) 1 ∧
    Mir.Gen.segment.ari ri rl ei el = Mir.Gen.segment.ari ri rl ei el (1 / 10) := ⟨rfl, rfl, rfl⟩

example : Mir.Gen.segment.pairwise [(0, 2), (2, 4)] [['a'], ['b']] [(0, 1), (1, 4)] [['x'], ['Y']] 1 1 =
      .ok (.val (1/3), .val (1/2), .val (2/5)) ∧
    Mir.Gen.segment.rand_index [(0, 2), (2, 4)] [['a'], ['b']] [(0, 1), (1, 4)] [['x'], ['Y']] 1 1 = .ok (.val (1/2)) ∧
    Mir.Gen.segment.ari [(0, 2), (2, 4)] [['a'], ['b']] [(0, 1), (1, 4)] [['x'], ['Y']] 1 = .ok 0 ∧
    Mir.Gen.segment.ari [] [] [(0, 1)] [['a']] 1 = .ok 0 ∧
    Mir.Gen.segment.pairwise [(0, 2)] [['a']] [(0, 3)] [['a']] 1 1 = .error .valueError := by decide +kernel

/-! ### `util.f_measure` on NumPy scalars (extern of `pairwise`) against the TRANSLATED `util.f_measure` -/

/-- On finite arguments the NumPy-scalar reading of `util.f_measure` used by the translated `pairwise`
    (`fMeasureNum`) is the translated `util.f_measure` (MirGen/Scalars.lean): the same value whenever Python floats
    would return one, and `nan` / `±inf` exactly where Python floats would raise `ZeroDivisionError`. -/
theorem f_measure_np_finite (p r beta : ℚ) :
    (∀ q, Mir.Gen.util.f_measure p r beta = .ok q → PyM.f_measure_np (.val p) (.val r) beta = .val q) ∧
    (Mir.Gen.util.f_measure p r beta = .error .zeroDivision →
      ∀ q, PyM.f_measure_np (.val p) (.val r) beta ≠ .val q) := by
  rw [Mir.C06.Gen.f_measure_eq_model]
  unfold Mir.C06.Gen.fMeasurePy PyM.f_measure_np fMeasureNum fMeasure
  by_cases h : p = 0 ∧ r = 0
  · simp [h]
  · by_cases hd : beta * beta * p + r = 0
    · simp [h, hd, npDiv]
      split <;> simp
    · simp [h, hd, npDiv]

/-! ### the headline C16 statements on the TRANSLATED definitions -/

/-- the three binomial sums `(Σ_ij C(n_ij,2), Σ_i C(a_i,2), Σ_j C(b_j,2))` of a contingency matrix, with the
    translated primitives (`flatten`, `sum(axis=1)`, `sum(axis=0)`, `comb(·, 2, exact=1)`) -/
def binomSums (M : PyM.Mat Nat) : Nat × Nat × Nat :=
  (((PyM.flatten M).map PyM.comb2).sum, ((PyM.sumAxis1 M).map PyM.comb2).sum, ((PyM.sumAxis0 M).map PyM.comb2).sum)

/-- on equally long index vectors the translated `_contingency_matrix` returns a matrix, of shape
    (#reference classes, #estimated classes), whose binomial sums are the model's `combSums` -/
theorem gen_contingency_ok {yr ye : List Nat} (h : yr.length = ye.length) :
    ∃ M, Mir.Gen.segment._contingency_matrix yr ye = .ok M ∧ M.nrows = (classes yr).length ∧
      M.ncols = (classes ye).length ∧ binomSums M = combSums yr ye := by
  refine ⟨⟨(classes yr).length, (classes ye).length, contingency yr ye⟩, ?_, rfl, rfl, rfl⟩
  rw [_contingency_matrix_eq_model]
  unfold contingencyPy
  simp [h]

/-- **pair counts = contingency binomial sums (translated).** The three numbers the code obtains from outer-equality
    matrices are the binomial sums of the matrix the TRANSLATED `_contingency_matrix` returns. -/
theorem gen_pair_counts_binomial (yr ye : List Nat) (h : yr.length = ye.length) :
    ∃ M, Mir.Gen.segment._contingency_matrix yr ye = .ok M ∧
      pairCounts yr ye = (((binomSums M).1 : ℚ), ((binomSums M).2.2 : ℚ), ((binomSums M).2.1 : ℚ)) := by
  obtain ⟨M, hM, _, _, hb⟩ := gen_contingency_ok h
  exact ⟨M, hM, by rw [hb]; exact Mir.C16.pairwise_textbook_counts yr ye h⟩

/-- **pairwise_textbook (translated).** Whenever each side has a co-labelled pair of frames, the translated body of
    `pairwise` returns precision `Σ C(n_ij,2) / Σ C(b_j,2)`, recall `Σ C(n_ij,2) / Σ C(a_i,2)` and `util.f_measure` of
    the two, the sums taken over the translated contingency matrix — for every `beta > 0`. -/
theorem gen_pairwise_textbook (yr ye : List Nat) (beta : ℚ) (h : yr.length = ye.length) (hb : 0 < beta)
    (hA : 0 < (combSums yr ye).2.1) (hB : 0 < (combSums yr ye).2.2) :
    ∃ M, Mir.Gen.segment._contingency_matrix yr ye = .ok M ∧
      Mir.Gen.segment.pairwise_core yr ye beta = .ok
        (.val (((binomSums M).1 : ℚ) / ((binomSums M).2.2 : ℚ)),
         .val (((binomSums M).1 : ℚ) / ((binomSums M).2.1 : ℚ)),
         .val (fMeasure (((binomSums M).1 : ℚ) / ((binomSums M).2.2 : ℚ))
                        (((binomSums M).1 : ℚ) / ((binomSums M).2.1 : ℚ)) beta)) := by
  obtain ⟨M, hM, _, _, hs⟩ := gen_contingency_ok h
  refine ⟨M, hM, ?_⟩
  rw [pairwise_core_eq_model, hs]
  exact Mir.C16.pairwise_textbook yr ye beta h hb hA hB

/-- **rand_textbook (translated).** With at least two frames the translated body of `rand_index` returns
    `(C(n,2) + 2 Σ C(n_ij,2) − Σ C(a_i,2) − Σ C(b_j,2)) / C(n,2)`. -/
theorem gen_rand_textbook (yr ye : List Nat) (h : yr.length = ye.length) (hn : 2 ≤ yr.length) :
    ∃ M, Mir.Gen.segment._contingency_matrix yr ye = .ok M ∧
      Mir.Gen.segment.rand_index_core yr ye = .ok (.val
        (((PyM.comb2 yr.length : ℚ) + 2 * ((binomSums M).1 : ℚ)
            - ((binomSums M).2.1 : ℚ) - ((binomSums M).2.2 : ℚ)) / (PyM.comb2 yr.length : ℚ))) := by
  obtain ⟨M, hM, _, _, hs⟩ := gen_contingency_ok h
  refine ⟨M, hM, ?_⟩
  rw [rand_index_core_eq_model, hs]
  exact Mir.C16.rand_textbook yr ye h hn

/-- **ari_textbook (translated).** Outside the three special cases the translated `_adjusted_rand_index` returns the
    Hubert–Arabie quotient of the translated contingency matrix, dividing by strictly positive numbers. -/
theorem gen_ari_textbook (yr ye : List Nat) (h : yr.length = ye.length) (hs : ¬ ariSpecial yr ye) :
    ∃ M, Mir.Gen.segment._contingency_matrix yr ye = .ok M ∧
      Mir.Gen.segment._adjusted_rand_index yr ye = .ok
        ((((binomSums M).1 : ℚ) - ((binomSums M).2.1 : ℚ) * ((binomSums M).2.2 : ℚ) / (PyM.comb2 yr.length : ℚ)) /
         ((((binomSums M).2.2 : ℚ) + ((binomSums M).2.1 : ℚ)) / 2
            - ((binomSums M).2.1 : ℚ) * ((binomSums M).2.2 : ℚ) / (PyM.comb2 yr.length : ℚ))) ∧
      (0 : ℚ) < (PyM.comb2 yr.length : ℚ) ∧
      (0 : ℚ) < (((binomSums M).2.2 : ℚ) + ((binomSums M).2.1 : ℚ)) / 2
          - ((binomSums M).2.1 : ℚ) * ((binomSums M).2.2 : ℚ) / (PyM.comb2 yr.length : ℚ) := by
  obtain ⟨M, hM, _, _, hb⟩ := gen_contingency_ok h
  refine ⟨M, hM, ?_⟩
  rw [_adjusted_rand_index_eq_model, hb]
  exact Mir.C16.ari_textbook yr ye h hs

/-- **ari special cases (translated).** Both one cluster / both empty / both all singletons: `1.0`. -/
theorem gen_ari_special (yr ye : List Nat) (hs : ariSpecial yr ye) :
    Mir.Gen.segment._adjusted_rand_index yr ye = .ok 1 := by
  rw [_adjusted_rand_index_eq_model]; exact Mir.C16.ari_special yr ye hs

/-- the translated `_adjusted_rand_index` never raises on index vectors of equal length -/
theorem gen_ari_total (yr ye : List Nat) (h : yr.length = ye.length) :
    ∃ q, Mir.Gen.segment._adjusted_rand_index yr ye = .ok q := by
  rw [_adjusted_rand_index_eq_model]; exact Mir.C16.ari_total yr ye h

/-- **ARI ≤ 1 (translated).** -/
theorem gen_ari_le_one (yr ye : List Nat) (h : yr.length = ye.length) (q : ℚ)
    (hq : Mir.Gen.segment._adjusted_rand_index yr ye = .ok q) : q ≤ 1 := by
  rw [_adjusted_rand_index_eq_model] at hq; exact Mir.C16.ari_le_one yr ye h q hq

/-- **ARI = 1 on coinciding partitions (translated)**, whatever the label names. -/
theorem gen_ari_self (yr ye : List Nat) (h : yr.length = ye.length) (hp : SamePartition yr ye) :
    Mir.Gen.segment._adjusted_rand_index yr ye = .ok 1 := by
  rw [_adjusted_rand_index_eq_model]; exact Mir.C16.ari_self yr ye h hp

set_option linter.unusedSimpArgs false in
/-- the public `ari` as translated: whatever it returns on annotations whose frame sequences have equal length is
    at most 1 (the empty-annotation `0.0` included) -/
theorem gen_ari_public_le_one (ri : List (ℚ × ℚ)) (rl : List Label) (ei : List (ℚ × ℚ)) (el : List Label) (fs : ℚ)
    (h : (frameIndices ri rl fs).length = (frameIndices ei el fs).length) (q : ℚ)
    (hq : Mir.Gen.segment.ari ri rl ei el fs = .ok q) : q ≤ 1 := by
  unfold Mir.Gen.segment.ari PyM.validate_structure at hq
  cases hv : validateStructure ri rl.length ei el.length with
  | error e => rw [hv] at hq; cases hq
  | ok u =>
    rw [hv] at hq
    simp only [ok_bind] at hq
    split at hq
    · cases hq; norm_num
    · simp only [ari_core_eq_model, bind_pure] at hq
      exact Mir.C16.ari_le_one _ _ h q hq

example : ¬ ariSpecial [0, 0, 1, 1] [0, 1, 1, 1] ∧ SamePartition [0, 0, 1, 2, 1] [3, 3, 0, 1, 0] ∧
    binomSums ⟨2, 2, [[1, 1], [0, 2]]⟩ = (1, 2, 3) ∧ combSums [0, 0, 1, 1] [0, 1, 1, 1] = (1, 2, 3) := by
  refine ⟨by decide +kernel, ?_, by decide +kernel, by decide +kernel⟩
  unfold SamePartition
  decide +kernel

/-! ### the entropy family, translated polymorphically over the hand model's class `Transc α`

  `_entropy`, `_mutual_info_score`, the body of `nce` and `vmeasure` are emitted once, over any `[Transc α]`; each
  equality below is therefore ONE theorem for both instances — `Float` (what the driver executes and the
  correspondence compares) and `ℝ` (what the textbook theorems of `Props/C16.lean` speak about). -/

/-- **`_entropy` as translated = the hand model's `entropyIdx`**, at every number type, for every label sequence
    (`np.bincount` of the `return_inverse` indices is the list of class sizes; the mask `pi > 0` keeps all of them). -/
theorem _entropy_eq_model {α : Type} [Transc α] (y : List Nat) :
    Mir.Gen.segment._entropy (α := α) y = .ok (entropyIdx y) := by
  unfold Mir.Gen.segment._entropy entropyIdx PyM.uniqueInverse
  by_cases h0 : y.length = 0
  · simp only [PyM.len_eq, h0, decide_true, if_true]; rfl
  · have hy : y ≠ [] := fun e => h0 (by simp [e])
    simp only [PyM.len_eq, h0, decide_false, if_false, PyM.unique_eq, Bool.false_eq_true]
    rw [PyM.bincount_inverse hy,
      PyM.selectVec_pos (List.map (fun c => List.count c y) (classes y)) (classCounts_pos y)]
    simp only [List.map_map, List.zipWith_map, List.zipWith_self, PyM.pySum_eq, Function.comp_def]
    rfl

/-- **`_mutual_info_score` with a pre-computed table as translated = `mutualInfoTab`** on that table with its own
    marginals, for every well-shaped matrix (`contingency[nnz]` and `outer[nnz]` select the same cells in the same
    order as the hand model's double loop skips the zero cells). -/
theorem _mutual_info_score_precomputed {α : Type} [Transc α] (yr ye : List Nat) (M : PyM.Mat Nat)
    (hwf : ∀ r ∈ M.rows, r.length = M.ncols) :
    Mir.Gen.segment._mutual_info_score (α := α) yr ye (some M) =
      .ok (mutualInfoTab M.rows (PyM.sumAxis1 M) (PyM.sumAxis0 M)) := by
  unfold Mir.Gen.segment._mutual_info_score
  simp only [pure_bind]
  obtain ⟨nr, nc, c⟩ := M
  have ha : c.length = (PyM.sumAxis1 ⟨nr, nc, c⟩).length := by simp [PyM.sumAxis1]
  have hb : ∀ r ∈ c, r.length = (PyM.sumAxis0 ⟨nr, nc, c⟩).length := by
    intro r hr'
    rw [PyM.length_sumAxis0 _ hwf]; exact hwf r hr'
  unfold PyM.outerT
  rw [PyM.selectMat_nz_fst nr nc c _ _ ha hb,
    PyM.selectMat_nz_snd (fun ai bj => (Transc.ofNat ai * Transc.ofNat bj : α)) _ _ c _ _ ha hb]
  unfold mutualInfoTab
  rw [PyM.mutualInfoSum_eq_nzCells]
  simp only [List.map_map, List.zipWith_map, List.zipWith_self, Function.comp_def, PyM.pySum_eq, PyM.sumAll]
  rfl

set_option linter.unusedSimpArgs false in
/-- **`_mutual_info_score(ref, est)` as translated = the hand model's `mutualInfoIdx`** (with `coo_matrix`'s
    `ValueError` on unequal lengths), at every number type, for all index vectors. -/
theorem _mutual_info_score_eq_model {α : Type} [Transc α] (yr ye : List Nat) :
    Mir.Gen.segment._mutual_info_score (α := α) yr ye none =
      (do checkLen yr ye; pure (mutualInfoIdx yr ye)) := by
  have key : Mir.Gen.segment._mutual_info_score (α := α) yr ye none =
      (do let M ← Mir.Gen.segment._contingency_matrix yr ye
          Mir.Gen.segment._mutual_info_score (α := α) yr ye (some M)) := by
    unfold Mir.Gen.segment._mutual_info_score
    simp only [bind_pure, pure_bind]
  rw [key, _contingency_matrix_eq_model]
  unfold contingencyPy checkLen
  by_cases hl : yr.length = ye.length
  · simp only [if_neg (not_not.2 hl), ok_bind]
    rw [_mutual_info_score_precomputed]
    · rfl
    · intro r hr
      simp only [contingency, List.mem_map] at hr
      obtain ⟨a, _, rfl⟩ := hr
      simp
  · simp only [if_pos hl, error_bind]

/-- **`_normalized_mutual_info_score` as translated = the hand model's `nmiIdx`** (its first component), at every
    number type: the early `1.0` of two one-cluster (or two empty) labellings, else
    `mi / max(sqrt(H(ref) * H(est)), 1e-10)` with the translated `_mutual_info_score` and `_entropy`. -/
theorem _normalized_mutual_info_score_eq_model {α : Type} [Transc α] (yr ye : List Nat) :
    Mir.Gen.segment._normalized_mutual_info_score (α := α) yr ye =
      if miSpecial yr ye then .ok (Transc.ofNat 1) else (do checkLen yr ye; pure (nmiIdx yr ye).1) := by
  unfold Mir.Gen.segment._normalized_mutual_info_score miSpecial
  simp only [Bool.or_eq_true, Bool.and_eq_true, decide_eq_true_eq]
  simp only [PyM.unique_eq, PyM.shape0_eq]
  refine if_ctx_congr ?_ (fun _ => rfl) (fun hs => ?_)
  · omega
  · rw [_contingency_matrix_eq_model]
    unfold contingencyPy checkLen
    by_cases hl : yr.length = ye.length
    · simp only [if_neg (not_not.2 hl), ok_bind]
      rw [_mutual_info_score_precomputed, _entropy_eq_model, _entropy_eq_model]
      · simp only [ok_bind]
        unfold nmiIdx mutualInfoIdx
        rw [if_neg hs]
        rfl
      · intro r hr
        simp only [contingency, List.mem_map] at hr
        obtain ⟨a, _, rfl⟩ := hr
        simp
    · simp only [if_pos hl, error_bind]

/-- **the body of `nce` as translated = the hand model's `nceIdx`** (beta cast by `Transc.ofRat`), at every number
    type, for all index vectors, both values of `marginal`. -/
theorem nce_core_eq_model {α : Type} [Transc α] (yr ye : List Nat) (beta : ℚ) (marginal : Bool) :
    Mir.Gen.segment.nce_core (α := α) yr ye beta marginal =
      (do checkLen yr ye; pure (nceIdx yr ye (Transc.ofRat beta) marginal)) := by
  unfold Mir.Gen.segment.nce_core
  rw [_contingency_matrix_eq_model]
  unfold contingencyPy checkLen
  by_cases hl : yr.length = ye.length
  · simp only [if_neg (not_not.2 hl), ok_bind]
    unfold nceIdx
    simp only [length_contingency]
    cases marginal <;> rfl
  · simp only [if_pos hl, error_bind]

set_option linter.unusedSimpArgs false in
/-- **`segment.nce` as translated** = validation, the `(0, 0, 0)` of an empty annotation, frame sampling (the hand
    model's `prologue`), then `nceIdx` — at every number type. -/
theorem nce_eq_model {α : Type} [Transc α] (ri : List (ℚ × ℚ)) (rl : List Label) (ei : List (ℚ × ℚ)) (el : List Label)
    (fs beta : ℚ) (marginal : Bool) :
    Mir.Gen.segment.nce (α := α) ri rl ei el fs beta marginal =
      (do match ← prologue ⟨ri, rl, ei, el⟩ fs with
          | none => pure (Transc.ofNat 0, Transc.ofNat 0, Transc.ofNat 0)
          | some (yr, ye) => do checkLen yr ye; pure (nceIdx yr ye (Transc.ofRat beta) marginal)) := by
  unfold Mir.Gen.segment.nce Segment.prologue PyM.validate_structure
  cases hv : validateStructure ri rl.length ei el.length with
  | error e => rfl
  | ok u =>
    simp only [ok_bind, PyM.size2_eq_zero, Bool.or_eq_true]
    by_cases he : ri.isEmpty = true ∨ ei.isEmpty = true
    · simp only [if_pos he]; rfl
    · simp only [if_neg he, pure_bind, bind_pure]
      rw [nce_core_eq_model]
      rfl

set_option linter.unusedSimpArgs false in
/-- **v_eq_nce_marginal (translated).** `vmeasure` as translated is `nce(..., marginal=True)` as translated. -/
theorem vmeasure_eq_nce {α : Type} [Transc α] (ri : List (ℚ × ℚ)) (rl : List Label) (ei : List (ℚ × ℚ))
    (el : List Label) (fs beta : ℚ) :
    Mir.Gen.segment.vmeasure (α := α) ri rl ei el fs beta = Mir.Gen.segment.nce (α := α) ri rl ei el fs beta true := by
  unfold Mir.Gen.segment.vmeasure
  simp only [bind_pure]

/-- at `Float` and on non-empty annotations the translated `nce` is the hand model's public function (what the
    correspondence suites compare with the code); on an empty annotation both return three zeros (the model as
    rationals, the translation as `Float`s) -/
theorem nce_float_eq_model (ri : List (ℚ × ℚ)) (rl : List Label) (ei : List (ℚ × ℚ)) (el : List Label)
    (fs beta : ℚ) (marginal : Bool) (hne : ¬ (ri.isEmpty = true ∨ ei.isEmpty = true)) :
    (Mir.Gen.segment.nce (α := Float) ri rl ei el fs beta marginal).map Segment.tripleF =
      Segment.nce ⟨ri, rl, ei, el⟩ fs beta marginal := by
  rw [nce_eq_model]
  unfold Segment.nce Segment.prologue
  cases hv : validateStructure ri rl.length ei el.length with
  | error e => rfl
  | ok u =>
    simp only [ok_bind, if_neg hne, pure_bind]
    unfold checkLen
    by_cases hl : (frameIndices ri rl fs).length = (frameIndices ei el fs).length
    · simp only [if_neg (not_not.2 hl), ok_bind]; rfl
    · simp only [if_pos hl, error_bind]; rfl

/-! #### the textbook forms (over the reals) on the TRANSLATED definitions -/

/-- **entropy_textbook (translated).** Over the reals the translated `_entropy` returns the Shannon entropy
    `−Σ_c p_c log p_c` of the labelling (`1.0` for an empty one). -/
theorem gen_entropy_textbook (y : List Nat) :
    Mir.Gen.segment._entropy (α := ℝ) y = .ok
      (if y.length = 0 then 1
       else -((classes y).map fun c =>
         ((y.count c : ℝ) / (y.length : ℝ)) * Real.log ((y.count c : ℝ) / (y.length : ℝ))).sum) := by
  rw [_entropy_eq_model, Mir.C16.entropy_textbook]

/-- **mi_textbook / mi_nonneg / mi_symm (translated).** Over the reals the translated `_mutual_info_score` returns
    `Σ_ij p_ij log(p_ij / (p_i p_j))`, which is non-negative (the `np.clip` never fires) and symmetric. -/
theorem gen_mi_textbook (yr ye : List Nat) (h : yr.length = ye.length) :
    Mir.Gen.segment._mutual_info_score (α := ℝ) yr ye none = .ok (miSum yr ye) ∧ 0 ≤ miSum yr ye ∧
    Mir.Gen.segment._mutual_info_score (α := ℝ) ye yr none = Mir.Gen.segment._mutual_info_score (α := ℝ) yr ye none ∧
    miSum yr ye =
      ((classes yr).map fun x => ((classes ye).map fun y =>
        let pij : ℝ := (((yr.zip ye).countP fun p => p.1 == x && p.2 == y : Nat) : ℝ) / (yr.length : ℝ)
        pij * Real.log (pij / (((yr.count x : ℝ) / yr.length) * ((ye.count y : ℝ) / yr.length)))).sum).sum := by
  have e1 := (Mir.C16.mi_nonneg yr ye h).2
  refine ⟨?_, ?_, ?_, ?_⟩
  · rw [_mutual_info_score_eq_model, checkLen_pure h, e1]
  · rw [← e1]; exact (Mir.C16.mi_nonneg yr ye h).1
  · rw [_mutual_info_score_eq_model, _mutual_info_score_eq_model, checkLen_pure h, checkLen_pure h.symm,
      Mir.C16.mi_symm yr ye h]
  · rw [← e1]; exact Mir.C16.mi_textbook yr ye h

/-- **nmi_textbook (translated).** Outside the early return and over the reals the translated
    `_normalized_mutual_info_score` returns `MI / max(√(H(ref)·H(est)), 1e-10)`; in the early return `1`. -/
theorem gen_nmi_textbook (yr ye : List Nat) (h : yr.length = ye.length) :
    Mir.Gen.segment._normalized_mutual_info_score (α := ℝ) yr ye = .ok
      (if miSpecial yr ye then 1 else miSum yr ye / max (Real.sqrt (shannon yr * shannon ye)) (1 / 10 ^ 10)) := by
  rw [_normalized_mutual_info_score_eq_model]
  by_cases hs : miSpecial yr ye
  · simp only [if_pos hs]
    have : (Transc.ofNat 1 : ℝ) = 1 := by simp [Transc.ofNat]
    rw [this]
  · simp only [if_neg hs]
    rw [checkLen_pure h, Mir.C16.nmi_textbook yr ye h hs]

/-- **nce_textbook (translated).** Over the reals the translated body of `nce` returns
    `S_over = 1 − H₂(est | ref) / Z_est`, `S_under = 1 − H₂(ref | est) / Z_ref` and `util.f_measure` of the two
    (`Z = log₂ #clusters`, or the marginal entropy in bits for `marginal=True`; `0` when `Z` is not positive). -/
theorem gen_nce_textbook (yr ye : List Nat) (h : yr.length = ye.length) (beta : ℚ) (marginal : Bool) :
    Mir.Gen.segment.nce_core (α := ℝ) yr ye beta marginal = .ok
      (let zRef : ℝ := if marginal then shannon yr / Real.log 2 else Real.logb 2 ((classes yr).length : ℝ)
       let zEst : ℝ := if marginal then shannon ye / Real.log 2 else Real.logb 2 ((classes ye).length : ℝ)
       let over : ℝ := if 0 < zEst then 1 - condEntropy2 yr ye / zEst else 0
       let under : ℝ := if 0 < zRef then 1 - condEntropy2 ye yr / zRef else 0
       (over, under, fMeasureT over under (beta : ℝ))) := by
  rw [nce_core_eq_model, checkLen_pure h, Mir.C16.nce_textbook yr ye h]
  rfl

/-- **v_is_mi_over_entropy (translated).** With `marginal = True` (V-measure) the two scores are `MI/H(est)` and
    `MI/H(ref)` (`0` with fewer than two clusters). -/
theorem gen_vmeasure_is_mi_over_entropy (yr ye : List Nat) (h : yr.length = ye.length) (beta : ℚ) :
    ∃ r : ℝ × ℝ × ℝ, Mir.Gen.segment.nce_core (α := ℝ) yr ye beta true = .ok r ∧
      r.1 = (if 1 < (classes ye).length then miSum yr ye / shannon ye else 0) ∧
      r.2.1 = (if 1 < (classes yr).length then miSum yr ye / shannon yr else 0) := by
  refine ⟨_, by rw [nce_core_eq_model, checkLen_pure h], ?_, ?_⟩
  · exact (Mir.C16.v_is_mi_over_entropy yr ye h (Transc.ofRat beta)).1
  · exact (Mir.C16.v_is_mi_over_entropy yr ye h (Transc.ofRat beta)).2

example : Mir.Gen.segment._entropy (α := ℝ) [] = .ok 1 ∧
    Mir.Gen.segment._entropy (α := ℝ) [0, 0, 1, 1] = .ok (Real.log 2) := by
  constructor
  · rw [gen_entropy_textbook]; simp
  · rw [_entropy_eq_model]
    have hc : classes [0, 0, 1, 1] = [0, 1] := by decide +kernel
    rw [Mir.C16.entropy_textbook, hc]
    have h2 : Real.log ((1 : ℝ) / 2) = -Real.log 2 := by rw [one_div, Real.log_inv]
    norm_num [h2]
    ring

end Mir.C16.GenIndex
