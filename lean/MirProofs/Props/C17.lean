import MirProofs.Lemmas.Hierarchy
/-!
  C17 — hierarchy T- and L-measures equal the triplet-ranking definition.

  Layer S (`MirModel/Hierarchy.lean`): `countPairs`, `rel`, `triples`, `correct`, `windowIdx`, `windowRow`,
  `specQuery`, `specScore`, `gaucSpec` — brute-force enumeration of the frame triples `(q, i, j)`.
  Layer M: `countInversions`, `compareFrameRankings`, `gauc`, `lca`, `meet`, `tmeasure`, `lmeasure`
  mirror the Python, exceptions included.
  Every theorem below is stated for all inputs (lists, matrices and hierarchies of any size).
-/
namespace Mir.C17
open Mir Mir.Hierarchy

/-! ### `_count_inversions` -/

/-- the two-pointer merge over `np.unique` values and counts counts the pairs `(x, y) ∈ a × b` with `x ≥ y` -/
theorem countInversions_spec (a b : List Nat) :
    countInversions a b = countPairs (fun x y => decide (x ≥ y)) a b :=
  countInversions_eq_countPairs a b

example : countInversions [3, 1, 3, 2] [2, 2, 0, 4] = 10
    ∧ countPairs (fun x y => decide (x ≥ y)) [3, 1, 3, 2] [2, 2, 0, 4] = 10 := by
  constructor
  · rw [countInversions_spec]; decide
  · decide

/-! ### `_compare_frame_rankings` -/

/-- `(inversions, normalizer) = (#triples − #correct, #triples)`, for both `transitive` settings; the level
    pairs `(i, i+1)` whose upper level is missing contribute 0 (the `defaultdict` behaviour) -/
theorem compareFrameRankings_spec (ref est : List Nat) (transitive : Bool) (h : ref.length ≤ est.length) :
    compareFrameRankings ref est transitive
      = .ok (triples transitive ref est - correct transitive ref est, triples transitive ref est)
    ∧ correct transitive ref est ≤ triples transitive ref est := by
  have he := triples_eq transitive ref est
  refine ⟨?_, by omega⟩
  rw [compareFrameRankings_eq ref est transitive h]
  congr 2
  omega

/-- `est[idx]` fails when the estimate is shorter than the reference -/
theorem compareFrameRankings_short (ref est : List Nat) (transitive : Bool) (h : est.length < ref.length) :
    compareFrameRankings ref est transitive = .error .indexError :=
  Hierarchy.compareFrameRankings_short ref est transitive h

example : triples true [1, 2, 3, 1] [1, 1, 2, 3] = 5 ∧ correct true [1, 2, 3, 1] [1, 1, 2, 3] = 2
    ∧ triples false [2, 0, 1, 0] [1, 1, 0, 0] = 3 ∧ correct false [2, 0, 1, 0] [1, 1, 0, 0] = 1
    ∧ compareFrameRankings [1, 2, 3, 1] [1, 1, 2, 3] true = .ok (3, 5) := by
  refine ⟨by decide, by decide, by decide, by decide, ?_⟩
  rw [(compareFrameRankings_spec _ _ _ (by decide)).1]
  decide

/-! ### `_gauc` -/

/-- the slice `[max(0,q−w), min(n,q+w))` with position `min(q,w)` deleted is exactly the window of `q`:
    the frames `i ≠ q` with `q − w ≤ i < min(n, q+w)`, in order -/
theorem gauc_window_spec (row : List Nat) (n w q : Nat) (hq : q < n) :
    removeAt (pySlice row (q - w) (min n (q + w))) (min q w) = windowRow n w q row :=
  removeAt_pySlice_eq_windowRow row n w q hq

example : windowIdx 6 2 3 = [1, 2, 4] ∧ windowIdx 6 2 0 = [1] ∧ windowIdx 6 6 5 = [0, 1, 2, 3, 4]
    ∧ windowRow 6 2 3 [10, 11, 12, 13, 14, 15] = [11, 12, 14] := by
  refine ⟨by decide, by decide, by decide, by decide⟩

/-- on `n × n` matrices `_gauc` is the triplet-ranking definition: the mean, over the query frames that have a
    reference triple, of `#correct / #triples` (queries without a reference triple are skipped, `0/0 ↦ 0`) -/
theorem gauc_spec (n : Nat) (ref est : Mat) (hr : IsSquare n ref) (he : IsSquare n est)
    (transitive : Bool) (window : Option Nat) :
    gauc ref est transitive window = .ok (gaucSpec ref est transitive (winOf window n)) :=
  gauc_eq_spec n ref est hr he transitive window

example : IsSquare 3 [[2, 1, 0], [1, 2, 0], [0, 0, 2]]
    ∧ gaucSpec [[2, 1, 0], [1, 2, 0], [0, 0, 2]] [[1, 1, 1], [1, 1, 0], [1, 0, 1]] true 3 = 1 / 2 := by
  refine ⟨⟨rfl, by decide⟩, by decide +kernel⟩

/-- whatever `_gauc` returns lies in [0, 1] (any matrices, any window) -/
theorem gauc_range (ref est : Mat) (transitive : Bool) (window : Option Nat) (s : Rat)
    (h : gauc ref est transitive window = .ok s) : 0 ≤ s ∧ s ≤ 1 :=
  Hierarchy.gauc_range h

/-- matrices of different sizes are rejected -/
theorem gauc_shape_mismatch (ref est : Mat) (transitive : Bool) (window : Option Nat)
    (h : ref.length ≠ est.length) : gauc ref est transitive window = .error .valueError :=
  Hierarchy.gauc_shape_mismatch ref est transitive window h

/-- totality at full strength (the single-frame-slice IndexError was repaired by a550b6d): on same-size square
    matrices, for every window, `_gauc` returns the triplet-ranking definition, a score in [0, 1] -/
theorem gauc_total (n : Nat) (ref est : Mat) (hr : IsSquare n ref) (he : IsSquare n est)
    (transitive : Bool) (window : Option Nat) :
    ∃ s, gauc ref est transitive window = .ok s ∧ s = gaucSpec ref est transitive (winOf window n)
      ∧ 0 ≤ s ∧ s ≤ 1 := by
  have h := gauc_eq_spec n ref est hr he transitive window
  exact ⟨_, h, rfl, Hierarchy.gauc_range h⟩

/-- the formerly failing inputs: a one-frame track and a one-frame window now score (no result frame is left in
    such a window, so there is no triple and the query is skipped) -/
example : gauc [[1]] [[1]] true none = .ok 0
    ∧ gauc [[1, 1], [1, 1]] [[1, 1], [1, 1]] false (some 1) = .ok 0 := by
  constructor
  · rw [gauc_spec 1 _ _ ⟨rfl, by decide⟩ ⟨rfl, by decide⟩]; decide +kernel
  · rw [gauc_spec 2 _ _ ⟨rfl, by decide⟩ ⟨rfl, by decide⟩]; decide +kernel

/-! ### `_lca`, `_meet` -/

/-- every entry of the LCA matrix is the deepest level at which the two frames lie in one segment
    (0 when no level has such a segment) -/
theorem lca_spec (h : Hier) (fs : Rat) (m : Mat) (n : Nat) (hm : lca h fs = .ok m)
    (hn : numFrames h fs = .ok n) (i j : Nat) (hi : i < n) (hj : j < n) :
    entry m i j = some (lcaSpec h fs n i j) :=
  lca_entry hm hn i j hi hj

/-- every entry of the meet matrix is the deepest level at which the two frames lie in segments carrying the
    same (case-folded) label -/
theorem meet_spec (h : Hier) (labels : List (List String)) (fs : Rat) (m : Mat) (n : Nat)
    (hm : meet h labels fs = .ok m) (hn : numFrames h fs = .ok n) (i j : Nat) (hi : i < n) (hj : j < n) :
    entry m i j = some (meetSpec h labels fs n i j) :=
  meet_entry hm hn i j hi hj

example : lca [[(0, 4)], [(0, 2), (2, 4)]] 1 = .ok [[2, 2, 1, 1], [2, 2, 1, 1], [1, 1, 2, 2], [1, 1, 2, 2]]
    ∧ numFrames [[(0, 4)], [(0, 2), (2, 4)]] 1 = .ok 4
    ∧ lcaSpec [[(0, 4)], [(0, 2), (2, 4)]] 1 4 1 2 = 1
    ∧ meet [[(0, 3)], [(0, 1), (1, 2), (2, 3)]] [["x"], ["a", "b", "A"]] 1 = .ok [[2, 1, 2], [1, 2, 1], [2, 1, 2]]
    ∧ meetSpec [[(0, 3)], [(0, 1), (1, 2), (2, 3)]] [["x"], ["a", "b", "A"]] 1 3 0 2 = 2 := by
  refine ⟨by decide +kernel, by decide +kernel, by decide +kernel, by decide +kernel, by decide +kernel⟩

/-! ### `tmeasure`, `lmeasure` -/

/-- `frame_size ≤ 0` is rejected -/
theorem tmeasure_rejects_nonpos (ref est : Hier) (transitive : Bool) (window : Option Rat) (fs beta : Rat)
    (h : fs ≤ 0) : tmeasure ref est transitive window fs beta = .error .valueError :=
  Hierarchy.tmeasure_rejects_nonpos ref est transitive window fs beta h

/-- `frame_size > window` is rejected -/
theorem tmeasure_rejects_window (ref est : Hier) (transitive : Bool) (w fs beta : Rat) (h : w < fs) :
    tmeasure ref est transitive (some w) fs beta = .error .valueError :=
  Hierarchy.tmeasure_rejects_window ref est transitive w fs beta h

theorem lmeasure_rejects_nonpos (ref est : Hier) (rl el : List (List String)) (fs beta : Rat)
    (h : fs ≤ 0) : lmeasure ref rl est el fs beta = .error .valueError :=
  Hierarchy.lmeasure_rejects_nonpos ref est rl el fs beta h

example : tmeasure [[(0, 2)]] [[(0, 2)]] false (some (1/4)) (1/2) 1 = .error .valueError
    ∧ tmeasure [[(0, 2)]] [[(0, 2)]] true none 0 1 = .error .valueError :=
  ⟨tmeasure_rejects_window _ _ _ _ _ _ (by decide +kernel), tmeasure_rejects_nonpos _ _ _ _ _ _ (by decide +kernel)⟩

/-- an accepted window (`0 < frame_size ≤ window`) spans at least one frame -/
theorem windowFrames_pos (w fs : Rat) (h0 : 0 < fs) (h : fs ≤ w) :
    ∃ k, 1 ≤ k ∧ windowFrames (some w) fs = .ok (some k) :=
  Hierarchy.windowFrames_pos w fs h0 h

/-- totality at the public function, at full strength (repaired by a550b6d): for every valid pair of
    hierarchical segmentations (every level partitions one common span `[0, T]`, nested or not) and every accepted
    parameter setting, with `n = floor(T/fs)` frames and `w = floor(window/fs)` (or `n` for `None`), `tmeasure`
    returns (precision, recall, F) = the triplet definition with roles exchanged / as given / `f_measure`,
    all in [0, 1] -/
theorem tmeasure_total (ref est : Hier) (T : Rat) (transitive : Bool) (window : Option Rat)
    (fs beta : Rat) (hr : ValidHier ref T) (he : ValidHier est T) (h0 : 0 < fs)
    (hw : ∀ w, window = some w → fs ≤ w) :
    ∃ wf rl el, windowFrames window fs = .ok wf ∧ lca ref fs = .ok rl ∧ lca est fs = .ok el
      ∧ ∃ p r f, tmeasure ref est transitive window fs beta = .ok (p, r, f)
            ∧ r = gaucSpec rl el transitive (winOf wf (framesOf T fs))
            ∧ p = gaucSpec el rl transitive (winOf wf (framesOf T fs))
            ∧ f = fMeasure p r beta
            ∧ (0 ≤ p ∧ p ≤ 1) ∧ (0 ≤ r ∧ r ≤ 1) ∧ (0 ≤ f ∧ f ≤ 1) := by
  obtain ⟨wf, rl, el, hwf, hrl, hel, _, _, h⟩ :=
    tmeasure_valid ref est T transitive window fs beta hr he h0 hw
  exact ⟨wf, rl, el, hwf, hrl, hel, _, _, _, h, rfl, rfl, rfl, Hierarchy.tmeasure_range h⟩

/-- the same for `lmeasure` (labels no longer than their intervals) -/
theorem lmeasure_total (ref est : Hier) (rls els : List (List String)) (T fs beta : Rat)
    (hr : ValidHier ref T) (he : ValidHier est T) (h0 : 0 < fs)
    (hrf : ∀ x ∈ ref.zip rls, x.2.length ≤ x.1.length) (hef : ∀ x ∈ est.zip els, x.2.length ≤ x.1.length) :
    ∃ rm em, meet ref rls fs = .ok rm ∧ meet est els fs = .ok em
      ∧ ∃ p r f, lmeasure ref rls est els fs beta = .ok (p, r, f)
            ∧ r = gaucSpec rm em true (framesOf T fs) ∧ p = gaucSpec em rm true (framesOf T fs)
            ∧ f = fMeasure p r beta
            ∧ (0 ≤ p ∧ p ≤ 1) ∧ (0 ≤ r ∧ r ≤ 1) ∧ (0 ≤ f ∧ f ≤ 1) := by
  obtain ⟨rm, em, hrm, hem, _, _, h⟩ := lmeasure_valid ref est rls els T fs beta hr he h0 hrf hef
  exact ⟨rm, em, hrm, hem, _, _, _, h, rfl, rfl, rfl, Hierarchy.lmeasure_range h⟩

/-- non-vacuity: a valid two-level annotation; and the former defect witnesses (`window = frame_size`, a one-frame
    track) now return scores -/
example : ValidHier [[(0, 4)], [(0, 2), (2, 4)]] 4 ∧ framesOf 4 1 = 4
    ∧ tmeasure [[(0, 4)], [(0, 2), (2, 4)]] [[(0, 4)], [(0, 2), (2, 4)]] false (some (1/2)) (1/2) 1 = .ok (0, 0, 0)
    ∧ lmeasure [[(0, 1)]] [["a"]] [[(0, 1)]] [["a"]] 1 1 = .ok (0, 0, 0) := by
  refine ⟨⟨by simp, ?_⟩, by decide +kernel, by decide +kernel, by decide +kernel⟩
  intro lv hlv
  simp only [List.mem_cons, List.not_mem_nil, or_false] at hlv
  rcases hlv with rfl | rfl
  · exact ⟨by simp, by simp only [Chain]; norm_num⟩
  · exact ⟨by simp, by simp only [Chain]; norm_num⟩

/-- whenever `tmeasure` returns, recall is the triplet-ranking definition on the LCA matrices of
    (reference, estimate), precision is the same definition with the roles exchanged, both over the window
    `floor(window / frame_size)` (the whole track for `None`), and F is `f_measure` of the two -/
theorem tmeasure_spec (ref est : Hier) (transitive : Bool) (window : Option Rat) (fs beta p r f : Rat)
    (h : tmeasure ref est transitive window fs beta = .ok (p, r, f)) :
    ∃ (n : Nat) (wf : Option Nat) (rl el : Mat),
      windowFrames window fs = .ok wf ∧ lca ref fs = .ok rl ∧ lca est fs = .ok el
      ∧ IsSquare n rl ∧ IsSquare n el
      ∧ r = gaucSpec rl el transitive (winOf wf n)
      ∧ p = gaucSpec el rl transitive (winOf wf n)
      ∧ f = fMeasure p r beta := by
  obtain ⟨_, wf, rl, el, hw, _, _, hrl, hel, hr, hp, hf⟩ := tmeasure_ok h
  obtain ⟨nr, _, hsr⟩ := lca_isSquare hrl
  obtain ⟨ne, _, hse⟩ := lca_isSquare hel
  obtain ⟨hn, hrs⟩ := gauc_ok_square hsr hse hr
  subst hn
  obtain ⟨_, hps⟩ := gauc_ok_square hse hsr hp
  exact ⟨nr, wf, rl, el, hw, hrl, hel, hsr, hse, hrs, hps, hf⟩

/-- the same for `lmeasure`: meet (label-agreement depth) matrices, all level differences, no window -/
theorem lmeasure_spec (ref est : Hier) (rls els : List (List String)) (fs beta p r f : Rat)
    (h : lmeasure ref rls est els fs beta = .ok (p, r, f)) :
    ∃ (n : Nat) (rm em : Mat),
      meet ref rls fs = .ok rm ∧ meet est els fs = .ok em
      ∧ IsSquare n rm ∧ IsSquare n em
      ∧ r = gaucSpec rm em true n ∧ p = gaucSpec em rm true n ∧ f = fMeasure p r beta := by
  obtain ⟨_, rm, em, _, _, hrm, hem, hr, hp, hf⟩ := lmeasure_ok h
  obtain ⟨nr, _, hsr⟩ := meet_isSquare hrm
  obtain ⟨ne, _, hse⟩ := meet_isSquare hem
  obtain ⟨hn, hrs⟩ := gauc_ok_square hsr hse hr
  subst hn
  obtain ⟨_, hps⟩ := gauc_ok_square hse hsr hp
  exact ⟨nr, rm, em, hrm, hem, hsr, hse, hrs, hps, hf⟩

/-- precision = recall with the roles exchanged -/
theorem tmeasure_swap (ref est : Hier) (transitive : Bool) (window : Option Rat) (fs beta p r f : Rat)
    (h : tmeasure ref est transitive window fs beta = .ok (p, r, f)) :
    tmeasure est ref transitive window fs beta = .ok (r, p, fMeasure r p beta) :=
  Hierarchy.tmeasure_swap h

theorem lmeasure_swap (ref est : Hier) (rls els : List (List String)) (fs beta p r f : Rat)
    (h : lmeasure ref rls est els fs beta = .ok (p, r, f)) :
    lmeasure est els ref rls fs beta = .ok (r, p, fMeasure r p beta) :=
  Hierarchy.lmeasure_swap h

/-- all three scores lie in [0, 1], for every beta -/
theorem tmeasure_range (ref est : Hier) (transitive : Bool) (window : Option Rat) (fs beta p r f : Rat)
    (h : tmeasure ref est transitive window fs beta = .ok (p, r, f)) :
    (0 ≤ p ∧ p ≤ 1) ∧ (0 ≤ r ∧ r ≤ 1) ∧ (0 ≤ f ∧ f ≤ 1) :=
  Hierarchy.tmeasure_range h

theorem lmeasure_range (ref est : Hier) (rls els : List (List String)) (fs beta p r f : Rat)
    (h : lmeasure ref rls est els fs beta = .ok (p, r, f)) :
    (0 ≤ p ∧ p ≤ 1) ∧ (0 ≤ r ∧ r ≤ 1) ∧ (0 ≤ f ∧ f ≤ 1) :=
  Hierarchy.lmeasure_range h

/-- non-vacuity of the four theorems above: a two-level reference against a different two-level estimate,
    4 frames, returns non-trivial scores -/
example : tmeasure [[(0, 4)], [(0, 2), (2, 4)]] [[(0, 4)], [(0, 1), (1, 4)]] true none 1 1
      = .ok (1/3, 1/4, 2/7)
    ∧ lmeasure [[(0, 4)], [(0, 2), (2, 4)]] [["a"], ["b", "c"]] [[(0, 4)], [(0, 1), (1, 4)]] [["A"], ["b", "c"]] 1 1
      = .ok (1/3, 1/4, 2/7) := by
  constructor <;> decide +kernel

end Mir.C17
