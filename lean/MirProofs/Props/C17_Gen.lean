import MirGen.Hierarchy
import MirProofs.Lemmas.PyHier
/-!
  C17 (generated part) — the T- and L-measure kernels of `mir_eval/hierarchy.py` as REGENERATED from the source
  (`MirGen/Hierarchy.lean`, translator part `hierarchy`) equal the hand-written model (`MirModel/Hierarchy.lean`) for ALL
  inputs, so every C17 theorem provably speaks about the code as translated.
-/
namespace Mir.C17.Gen
open Mir Mir.Hierarchy Mir.PyH

/-! ### `_count_inversions` -/

/-- the translated two-pointer `while` loop, started at positions `i`, `j` of the `np.unique` values / counts with enough
    fuel, adds the model's `mergeInv` of the remaining values to the running count (and the fuel
    `len(a) + len(b) + 1` never binds) -/
theorem _count_inversions_loop_eq (ua ub : List (Nat × Nat)) :
    ∀ (fuel i inv j : Nat), (ua.length - i) + (ub.length - j) < fuel →
      ∃ i' j', Mir.Gen.hierarchy._count_inversions_loop1 (ua.map (·.1)) (ub.map (·.1)) (ua.map (·.2)) (ub.map (·.2))
          fuel i inv j = .ok (i', inv + mergeInv (ua.drop i) (ub.drop j), j') := by
  intro fuel
  induction fuel with
  | zero => intro i inv j h; omega
  | succ fuel ih =>
    intro i inv j h
    unfold Mir.Gen.hierarchy._count_inversions_loop1
    simp only [PyH.len, List.length_map]
    by_cases hc : i < ua.length ∧ j < ub.length
    · obtain ⟨hi, hj⟩ := hc
      simp only [hi, hj, decide_true, Bool.and_self, if_true]
      have ga : getItem (ua.map (·.1)) i = .ok ua[i].1 := by rw [getItem_lt _ _ (by simpa using hi)]; simp
      have gb : getItem (ub.map (·.1)) j = .ok ub[j].1 := by rw [getItem_lt _ _ (by simpa using hj)]; simp
      have gc : getItem (ub.map (·.2)) j = .ok ub[j].2 := by rw [getItem_lt _ _ (by simpa using hj)]; simp
      simp only [ga, gb, ok_bind]
      rw [List.drop_eq_getElem_cons hi, List.drop_eq_getElem_cons hj]
      by_cases hlt : ua[i].1 < ub[j].1
      · simp only [hlt, decide_true, if_true, pure_eq_ok, ok_bind]
        obtain ⟨i', j', h'⟩ := ih (i + 1) inv j (by omega)
        refine ⟨i', j', ?_⟩
        rw [h', List.drop_eq_getElem_cons hj]
        congr 3
        rw [mergeInv]; simp [hlt]
      · have hge : ua[i].1 ≥ ub[j].1 := by omega
        simp only [hlt, decide_false, Bool.false_eq_true, if_false]
        simp only [ga, gb, gc, ok_bind, hge, decide_true, if_true, pure_eq_ok, sum_drop_map_snd]
        obtain ⟨i', j', h'⟩ := ih i (inv + sumCounts (ua.drop i) * ub[j].2) (j + 1) (by omega)
        refine ⟨i', j', ?_⟩
        rw [h', List.drop_eq_getElem_cons hi]
        congr 3
        conv_rhs => rw [mergeInv]
        simp [hlt, Nat.add_assoc]
    · refine ⟨i, j, ?_⟩
      have : (decide (i < ua.length) && decide (j < ub.length)) = false := by
        simp only [Bool.and_eq_false_iff, decide_eq_false_iff_not]; omega
      simp only [this, Bool.false_eq_true, if_false, pure_eq_ok]
      have h0 : mergeInv (ua.drop i) (ub.drop j) = 0 := by
        by_cases hi : i < ua.length
        · have hj : ub.length ≤ j := by omega
          rw [List.drop_eq_nil_of_le hj, mergeInv_nil_right]
        · rw [List.drop_eq_nil_of_le (by omega)]; simp [mergeInv]
      rw [h0]; rfl

/-- **`_count_inversions` as translated = the hand model** (`countInversions`) for all arrays of levels: no `IndexError`
    path, the loop terminates within its fuel -/
theorem _count_inversions_eq_model (a b : List Nat) :
    Mir.Gen.hierarchy._count_inversions a b = .ok (countInversions a b) := by
  unfold Mir.Gen.hierarchy._count_inversions
  obtain ⟨i', j', h⟩ := _count_inversions_loop_eq (Hierarchy.uniqueCounts a) (Hierarchy.uniqueCounts b)
    ((Hierarchy.uniqueCounts a).length + (Hierarchy.uniqueCounts b).length + 1) 0 0 0 (by omega)
  simp only [PyH.uniqueCounts, PyH.len, List.length_map, h, ok_bind, List.drop_zero, Nat.zero_add, pure_eq_ok]
  rfl

/-- the headline of `_count_inversions` on the translated definition: it counts the pairs `(x, y) ∈ a × b`, `x ≥ y` -/
theorem gen_count_inversions_spec (a b : List Nat) :
    Mir.Gen.hierarchy._count_inversions a b = .ok (countPairs (fun x y => decide (x ≥ y)) a b) := by
  rw [_count_inversions_eq_model, countInversions_eq_countPairs]

example : Mir.Gen.hierarchy._count_inversions [3, 1, 3, 2] [2, 2, 0, 4] = .ok 10 := by decide +kernel

end Mir.C17.Gen
