import MirGen.Hierarchy
import MirProofs.Lemmas.PyHier
import MirProofs.Props.C17
import MirProofs.Props.C06_Gen
/-!
  C17 (generated part) — the T- and L-measure kernels of `mir_eval/hierarchy.py` as REGENERATED from the source
  (`MirGen/Hierarchy.lean`, translator part `hierarchy`) equal the hand-written model (`MirModel/Hierarchy.lean`) for ALL
  inputs, so every C17 theorem provably speaks about the code as translated.
-/
namespace Mir.C17.Gen
open Mir Mir.Hierarchy Mir.PyH

/-! ### `_count_inversions` -/

/-- the translated two-pointer `while` loop, started at positions `i`, `j` of the `np.unique` values / counts with enough
    fuel, adds the model's `mergeInv` of the remaining values to the running count (and the fuel
    `len(a) + len(b) + 1` never binds) -/
theorem _count_inversions_loop_eq (ua ub : List (Nat × Nat)) :
    ∀ (fuel i inv j : Nat), (ua.length - i) + (ub.length - j) < fuel →
      ∃ i' j', Mir.Gen.hierarchy._count_inversions_loop1 (ua.map (·.1)) (ub.map (·.1)) (ua.map (·.2)) (ub.map (·.2))
          fuel i inv j = .ok (i', inv + mergeInv (ua.drop i) (ub.drop j), j') := by
  intro fuel
  induction fuel with
  | zero => intro i inv j h; omega
  | succ fuel ih =>
    intro i inv j h
    unfold Mir.Gen.hierarchy._count_inversions_loop1
    simp only [PyH.len, List.length_map]
    by_cases hc : i < ua.length ∧ j < ub.length
    · obtain ⟨hi, hj⟩ := hc
      simp only [hi, hj, decide_true, Bool.and_self, if_true]
      have ga : getItem (ua.map (·.1)) i = .ok ua[i].1 := by rw [getItem_lt _ _ (by simpa using hi)]; simp
      have gb : getItem (ub.map (·.1)) j = .ok ub[j].1 := by rw [getItem_lt _ _ (by simpa using hj)]; simp
      have gc : getItem (ub.map (·.2)) j = .ok ub[j].2 := by rw [getItem_lt _ _ (by simpa using hj)]; simp
      simp only [ga, gb, ok_bind]
      rw [List.drop_eq_getElem_cons hi, List.drop_eq_getElem_cons hj]
      by_cases hlt : ua[i].1 < ub[j].1
      · simp only [hlt, decide_true, if_true, pure_eq_ok, ok_bind]
        obtain ⟨i', j', h'⟩ := ih (i + 1) inv j (by omega)
        refine ⟨i', j', ?_⟩
        rw [h', List.drop_eq_getElem_cons hj]
        congr 3
        rw [mergeInv]; simp [hlt]
      · have hge : ua[i].1 ≥ ub[j].1 := by omega
        simp only [hlt, decide_false, Bool.false_eq_true, if_false]
        simp only [ga, gb, gc, ok_bind, hge, decide_true, if_true, pure_eq_ok, sum_drop_map_snd]
        obtain ⟨i', j', h'⟩ := ih i (inv + sumCounts (ua.drop i) * ub[j].2) (j + 1) (by omega)
        refine ⟨i', j', ?_⟩
        rw [h', List.drop_eq_getElem_cons hi]
        congr 3
        conv_rhs => rw [mergeInv]
        simp [hlt, Nat.add_assoc]
    · refine ⟨i, j, ?_⟩
      have : (decide (i < ua.length) && decide (j < ub.length)) = false := by
        simp only [Bool.and_eq_false_iff, decide_eq_false_iff_not]; omega
      simp only [this, Bool.false_eq_true, if_false, pure_eq_ok]
      have h0 : mergeInv (ua.drop i) (ub.drop j) = 0 := by
        by_cases hi : i < ua.length
        · have hj : ub.length ≤ j := by omega
          rw [List.drop_eq_nil_of_le hj, mergeInv_nil_right]
        · rw [List.drop_eq_nil_of_le (by omega)]; simp [mergeInv]
      rw [h0]; rfl

/-- **`_count_inversions` as translated = the hand model** (`countInversions`) for all arrays of levels: no `IndexError`
    path, the loop terminates within its fuel -/
theorem _count_inversions_eq_model (a b : List Nat) :
    Mir.Gen.hierarchy._count_inversions a b = .ok (countInversions a b) := by
  unfold Mir.Gen.hierarchy._count_inversions
  obtain ⟨i', j', h⟩ := _count_inversions_loop_eq (Hierarchy.uniqueCounts a) (Hierarchy.uniqueCounts b)
    ((Hierarchy.uniqueCounts a).length + (Hierarchy.uniqueCounts b).length + 1) 0 0 0 (by omega)
  simp only [PyH.uniqueCounts, PyH.len, List.length_map, h, ok_bind, List.drop_zero, Nat.zero_add, pure_eq_ok]
  rfl

/-- the headline of `_count_inversions` on the translated definition: it counts the pairs `(x, y) ∈ a × b`, `x ≥ y` -/
theorem gen_count_inversions_spec (a b : List Nat) :
    Mir.Gen.hierarchy._count_inversions a b = .ok (countPairs (fun x y => decide (x ≥ y)) a b) := by
  rw [_count_inversions_eq_model, countInversions_eq_countPairs]

example : Mir.Gen.hierarchy._count_inversions [3, 1, 3, 2] [2, 2, 0, 4] = .ok 10 := by decide +kernel

/-! ### `_compare_frame_rankings` -/

/-- the translated `for` loop over `zip(levels, counts, positions[:-1], positions[1:])` stores one slice and one count
    per level (newest binding first) -/
theorem _compare_frame_rankings_loop1_eq :
    ∀ (items : List (Nat × Nat × Nat × Nat)) (index : DDict Slice) (ref_map : DDict Nat),
      Mir.Gen.hierarchy._compare_frame_rankings_loop1 items index ref_map
        = .ok ((items.map fun x => (x.1, slice2 x.2.2.1 x.2.2.2)).reverse ++ index,
               (items.map fun x => (x.1, x.2.1)).reverse ++ ref_map) := by
  intro items
  induction items with
  | nil => intro index ref_map; rfl
  | cons x t ih =>
    obtain ⟨l, c, s, e⟩ := x
    intro index ref_map
    unfold Mir.Gen.hierarchy._compare_frame_rankings_loop1
    simp only [dictSet, ih, List.map_cons, List.reverse_cons, List.append_assoc, List.cons_append, List.nil_append]

/-- the translated accumulation loop adds one `_count_inversions` (= the model's `countInversions`) per level pair -/
theorem _compare_frame_rankings_loop2_eq (es : List Nat) (index : DDict Slice) :
    ∀ (pairs : List (Nat × Nat)) (inv : Nat),
      Mir.Gen.hierarchy._compare_frame_rankings_loop2 es index pairs inv
        = .ok (inv + (pairs.map fun ij => countInversions (getSlice es (dictGetD index ij.1 (slice1 0)))
                                            (getSlice es (dictGetD index ij.2 (slice1 0)))).sum) := by
  intro pairs
  induction pairs with
  | nil => intro inv; rfl
  | cons x t ih =>
    obtain ⟨i, j⟩ := x
    intro inv
    unfold Mir.Gen.hierarchy._compare_frame_rankings_loop2
    simp only [_count_inversions_eq_model, ok_bind, ih, List.map_cons, List.sum_cons, Nat.add_assoc]

/-- **`_compare_frame_rankings` as translated = the hand model** (`compareFrameRankings`) for ALL rank vectors (any lengths,
    empty, estimate longer or shorter: the same `IndexError`), both `transitive` values; the normaliser is the float of the
    model's natural number -/
theorem _compare_frame_rankings_eq_model (ref est : List Nat) (tr : Bool) :
    Mir.Gen.hierarchy._compare_frame_rankings ref est tr
      = (compareFrameRankings ref est tr).map fun x => (x.1, ((x.2 : Nat) : Rat)) := by
  unfold Mir.Gen.hierarchy._compare_frame_rankings
  simp only [take_ref_argsort, ok_bind]
  by_cases hlen : est.length < ref.length
  · simp only [take_est_short ref est hlen, Hierarchy.compareFrameRankings_short ref est tr hlen]; rfl
  · have hle : ref.length ≤ est.length := by omega
    simp only [take_est_argsort ref est hle, ok_bind]
    have hk := keysAsc_uniqueCounts ref
    obtain ⟨h1, h2⟩ := unique_blocks (Hierarchy.uniqueCounts ref) hk (uniqueCounts_pos ref)
    generalize uniqueIndexCounts (sortedOf (Hierarchy.uniqueCounts ref)) = r at h1 h2
    obtain ⟨levels, positions, counts⟩ := r
    simp only at h1 h2
    subst h1
    simp only [h2, _compare_frame_rankings_loop1_eq, ok_bind, List.append_nil, ← List.map_reverse]
    have hrm : ((offs 0 (Hierarchy.uniqueCounts ref)).reverse.map fun x => (x.1, x.2.1))
        = (Hierarchy.uniqueCounts ref).reverse := by
      rw [List.map_reverse, offs_pairs]
    unfold compareFrameRankings
    rw [if_neg hlen]
    cases tr
    · simp only [hrm, tee, combinations2, levelPairs, Bool.false_eq_true, if_false, if_true, pure_eq_ok, ok_bind,
        dictGetD_reverse_lookupCount hk, npSum, _compare_frame_rankings_loop2_eq, List.map_reverse,
        getSlice_index ref est hle, Nat.zero_add, decide_eq_true_eq, @eq_comm _ (0 : Rat), Nat.cast_eq_zero]
      split <;> rfl
    · simp only [hrm, tee, combinations2, levelPairs, if_true, pure_eq_ok, ok_bind,
        dictGetD_reverse_lookupCount hk, npSum, _compare_frame_rankings_loop2_eq, List.map_reverse,
        getSlice_index ref est hle, Nat.zero_add, decide_eq_true_eq, @eq_comm _ (0 : Rat), Nat.cast_eq_zero]
      split <;> rfl

/-- the default of the translated signature: `transitive=False` -/
theorem _compare_frame_rankings_default (ref est : List Nat) :
    Mir.Gen.hierarchy._compare_frame_rankings ref est
      = (compareFrameRankings ref est false).map fun x => (x.1, ((x.2 : Nat) : Rat)) :=
  _compare_frame_rankings_eq_model ref est false

/-- the headline on the translated definition: `(inversions, normalizer) = (#triples − #correct, #triples)` of the
    triplet-ranking definition, for both `transitive` settings -/
theorem gen_compare_frame_rankings_spec (ref est : List Nat) (tr : Bool) (h : ref.length ≤ est.length) :
    Mir.Gen.hierarchy._compare_frame_rankings ref est tr
      = .ok (triples tr ref est - correct tr ref est, ((triples tr ref est : Nat) : Rat))
    ∧ correct tr ref est ≤ triples tr ref est := by
  obtain ⟨h1, h2⟩ := Mir.C17.compareFrameRankings_spec ref est tr h
  exact ⟨by rw [_compare_frame_rankings_eq_model, h1]; rfl, h2⟩

example : Mir.Gen.hierarchy._compare_frame_rankings [1, 2, 3, 1] [1, 1, 2, 3] true = .ok (3, 5) := by decide +kernel

/-! ### `_gauc` -/

/-- the translated query loop over the frames `k, k+1, …`: it fails where the model's `mapM` of `gaucQuery` fails (same
    exception), and otherwise accumulates `num_frames` / `score` over the queries with a non-zero normaliser; the division
    `inversions / float(normalizer)` never raises -/
theorem _gauc_loop_eq (ref est : Mat) (tr : Bool) (w : Nat) (hlen : ref.length = est.length) :
    ∀ (m k nf : Nat) (sc : Rat), k + m = ref.length →
      Mir.Gen.hierarchy._gauc_loop1 ref est tr w ref.length (List.range' k m) nf sc
        = ((((ref.zip est).drop k).zipIdx k).mapM fun x => gaucQuery ref.length w tr x.2 x.1.1 x.1.2) >>=
            fun terms => pure (accTerms terms nf sc) := by
  intro m
  induction m with
  | zero =>
    intro k nf sc hk
    have : (ref.zip est).drop k = [] := List.drop_eq_nil_of_le (by simp [List.length_zip]; omega)
    rw [this]
    simp [Mir.Gen.hierarchy._gauc_loop1, accTerms, pure_eq_ok, ok_bind]
  | succ m ih =>
    intro k nf sc hk
    have hkr : k < ref.length := by omega
    have hke : k < est.length := by omega
    have hkz : k < (ref.zip est).length := by simp [List.length_zip]; omega
    rw [List.range'_succ, List.drop_eq_getElem_cons hkz, List.zipIdx_cons, List.mapM_cons]
    unfold Mir.Gen.hierarchy._gauc_loop1
    -- the slice bounds / the query position up to the order of the operands of `min` (harmless rewrites of the source)
    have e1 : Nat.min ref.length (k + w) = min ref.length (k + w) := rfl
    have e1b : Nat.min (k + w) ref.length = min ref.length (k + w) := Nat.min_comm _ _
    have e1c : Nat.min (w + k) ref.length = min ref.length (k + w) := by rw [Nat.add_comm w k]; exact Nat.min_comm _ _
    have e1d : Nat.min ref.length (w + k) = min ref.length (k + w) := by rw [Nat.add_comm w k]
    have e2 : Nat.min k w = min k w := rfl
    have e2b : Nat.min w k = min k w := Nat.min_comm _ _
    have e3 : Int.toNat ((k : Int) - (w : Int)) = k - w := by omega
    have hr : ∀ s, rowSlice ref k s = .ok (getSlice ref[k] s) := by
      intro s; unfold rowSlice; rw [List.getElem?_eq_getElem hkr]
    have he : ∀ s, rowSlice est k s = .ok (getSlice est[k] s) := by
      intro s; unfold rowSlice; rw [List.getElem?_eq_getElem hke]
    simp only [hr, he, ok_bind, _compare_frame_rankings_eq_model, concat, sliceTo, sliceFrom, List.getElem_zip, getSlice,
      slice2, e1, e1b, e1c, e1d, e2, e2b, e3]
    have hq : compareFrameRankings
        (List.take (min k w) (pySlice ref[k] (k - w) (min ref.length (k + w))) ++
          List.drop (min k w + 1) (pySlice ref[k] (k - w) (min ref.length (k + w))))
        (List.take (min k w) (pySlice est[k] (k - w) (min ref.length (k + w))) ++
          List.drop (min k w + 1) (pySlice est[k] (k - w) (min ref.length (k + w)))) tr
        = gaucQuery ref.length w tr k ref[k] est[k] := rfl
    rw [hq]
    cases hg : gaucQuery ref.length w tr k ref[k] est[k] with
    | error e => rfl
    | ok t =>
      obtain ⟨inv, norm⟩ := t
      simp only [Except.map, ok_bind]
      have ihk := ih (k + 1) 
      by_cases hn : norm = 0
      · subst hn
        simp only [Nat.cast_zero, ne_eq, not_true_eq_false, decide_false, Bool.false_eq_true, if_false, pure_eq_ok, ok_bind]
        rw [ihk nf sc (by omega)]
        cases hm : (List.mapM (fun x => gaucQuery ref.length w tr x.2 x.1.1 x.1.2)
            ((List.drop (k + 1) (ref.zip est)).zipIdx (k + 1))) with
        | error e => rfl
        | ok terms =>
          simp only [ok_bind, pure_eq_ok]
          rw [accTerms_cons_zero _ _ _ _ rfl]
      · have hnr : ((norm : Nat) : Rat) ≠ 0 := by exact_mod_cast hn
        simp only [ne_eq, hnr, not_false_eq_true, decide_true, if_true, divF_ne hnr, ok_bind, pure_eq_ok]
        rw [ihk (nf + 1) (sc + (1 - (inv : Rat) / (norm : Rat))) (by omega)]
        cases hm : (List.mapM (fun x => gaucQuery ref.length w tr x.2 x.1.1 x.1.2)
            ((List.drop (k + 1) (ref.zip est)).zipIdx (k + 1))) with
        | error e => rfl
        | ok terms =>
          simp only [ok_bind, pure_eq_ok]
          rw [accTerms_cons_pos _ _ _ _ (by simpa using hn)]

/-- **`_gauc` as translated = the hand model** (`gauc`) for ALL pairs of matrices (any sizes incl. 0 and 1, different
    sizes: the same `ValueError`), both `transitive` values, every window (`None`, 0, 1, larger than the track) -/
theorem _gauc_eq_model (ref est : Mat) (tr : Bool) (window : Option Nat) :
    Mir.Gen.hierarchy._gauc ref est tr window = gauc ref est tr window := by
  unfold Mir.Gen.hierarchy._gauc gauc
  by_cases hlen : ref.length = est.length
  · have hs : (decide (shape ref ≠ shape est)) = false := by simp [shape, hlen]
    have key : ∀ w, (Mir.Gen.hierarchy._gauc_loop1 ref est tr w ref.length (List.range ref.length) 0 0 >>= fun x =>
          (if (decide (x.1 ≠ 0)) then (divF x.2 ((x.1 : Nat) : Rat) >>= fun t => pure t) else pure 0))
        = match gaucTerms ref est tr w with
          | .error e => .error e
          | .ok terms => .ok (gaucScore terms) := by
      intro w
      rw [List.range_eq_range', _gauc_loop_eq ref est tr w hlen ref.length 0 0 0 (by omega)]
      simp only [List.drop_zero, gaucTerms]
      cases hm : (List.mapM (fun x => gaucQuery ref.length w tr x.2 x.1.1 x.1.2) ((ref.zip est).zipIdx)) with
      | error e => rfl
      | ok terms =>
        simp only [ok_bind, pure_eq_ok, accTerms, gaucScore]
        generalize List.filter (fun t : Nat × Nat => decide (t.2 ≠ 0)) terms = c
        by_cases h0 : c.length = 0
        · simp [h0]
        · have hr : ((c.length : Nat) : Rat) ≠ 0 := by exact_mod_cast h0
          simp only [ne_eq, h0, not_false_eq_true, decide_true, if_true, if_false, divF_ne hr, ok_bind, Nat.zero_add,
            zero_add]
    simp only [hs, Bool.false_eq_true, if_false]
    simp only [shape]
    rw [if_neg (not_not.2 hlen)]
    cases window with
    | none => exact key ref.length
    | some w => exact key w
  · have hs : (decide (shape ref ≠ shape est)) = true := by simp [shape, hlen]
    simp only [hs, if_true, throw_eq_error]
    rw [if_pos hlen]

/-- the C17 headline on the translated kernel: on `n × n` matrices `_gauc` as translated IS the triplet-ranking
    definition (mean over the query frames with a reference triple of `#correct / #triples`), a score in [0, 1] -/
theorem gen_gauc_spec (n : Nat) (ref est : Mat) (hr : IsSquare n ref) (he : IsSquare n est)
    (tr : Bool) (window : Option Nat) :
    Mir.Gen.hierarchy._gauc ref est tr window = .ok (gaucSpec ref est tr (winOf window n))
      ∧ 0 ≤ gaucSpec ref est tr (winOf window n) ∧ gaucSpec ref est tr (winOf window n) ≤ 1 := by
  obtain ⟨s, h1, h2, h3, h4⟩ := Mir.C17.gauc_total n ref est hr he tr window
  subst h2
  exact ⟨by rw [_gauc_eq_model, h1], h3, h4⟩

/-- matrices of different sizes are rejected by the translated kernel -/
theorem gen_gauc_shape_mismatch (ref est : Mat) (tr : Bool) (window : Option Nat) (h : ref.length ≠ est.length) :
    Mir.Gen.hierarchy._gauc ref est tr window = .error .valueError := by
  rw [_gauc_eq_model, Mir.C17.gauc_shape_mismatch ref est tr window h]

example : Mir.Gen.hierarchy._gauc [[2, 1, 0], [1, 2, 0], [0, 0, 2]] [[1, 1, 1], [1, 1, 0], [1, 0, 1]] true none = .ok (1 / 2)
    ∧ Mir.Gen.hierarchy._gauc [[1]] [[1]] true none = .ok 0
    ∧ Mir.Gen.hierarchy._gauc [[1, 1], [1, 1]] [[1, 1], [1, 1]] false (some 1) = .ok 0 := by
  refine ⟨by decide +kernel, by decide +kernel, by decide +kernel⟩

/-! ### `_round`, `_hierarchy_bounds`, `_lca` -/

/-- `_round` as translated never raises and, for `frame_size > 0`, is `frame_size · ⌊t / frame_size⌋`: the time stamp
    rounded down to the frame grid, whose frame index is the model's `frameOf` -/
theorem _round_eq_model (t fs : Rat) (h : 0 < fs) :
    ∃ r, Mir.Gen.hierarchy._round t fs = .ok r ∧ r = fs * ((frameOf t fs : Int) : Rat) ∧ pyInt (r / fs) = frameOf t fs := by
  refine ⟨t - npMod t fs, rfl, ?_, pyInt_round_div t fs h⟩
  unfold npMod frameOf; ring

/-- **`_hierarchy_bounds` as translated = the hand model** (`bounds`) for every hierarchy (no levels / only empty levels:
    the `ValueError` of `min([])`) -/
theorem _hierarchy_bounds_eq_model (h : Hier) : Mir.Gen.hierarchy._hierarchy_bounds h = bounds h := by
  unfold Mir.Gen.hierarchy._hierarchy_bounds bounds chain2 pyMin pyMax
  cases hb : boundaries h with
  | nil => rfl
  | cons x t => simp only [List.min?_cons', List.max?_cons', ok_bind, pure_eq_ok]

/-- the translated inner loop of `_lca` writes one diagonal block per segment -/
theorem _lca_loop2_eq (level n : Nat) : ∀ (frames : List (Int × Int)) (m : Mat), m.length = n →
    Mir.Gen.hierarchy._lca_loop2 level frames m
      = .ok (frames.foldl (fun m f => Hierarchy.setBlock m (normIdx f.1 n) (normIdx f.2 n) (normIdx f.1 n) (normIdx f.2 n) level) m) := by
  intro frames
  induction frames with
  | nil => intro m _; rfl
  | cons f t ih =>
    intro m hm
    unfold Mir.Gen.hierarchy._lca_loop2
    simp only [PyH.setBlock, hm]
    rw [ih _ (by rw [length_setBlock, hm])]
    rfl

/-- the translated outer loop of `_lca` = the model's fold of `lcaLevel` over the levels numbered from 1 -/
theorem _lca_loop1_eq (fs : Rat) (hfs : 0 < fs) (n : Nat) : ∀ (xs : List (Ivals × Nat)) (m : Mat), m.length = n →
    Mir.Gen.hierarchy._lca_loop1 fs xs m = .ok (xs.foldl (fun m x => lcaLevel fs n m x.2 x.1) m) := by
  intro xs
  induction xs with
  | nil => intro m _; rfl
  | cons x t ih =>
    obtain ⟨ivs, level⟩ := x
    intro m hm
    unfold Mir.Gen.hierarchy._lca_loop1
    simp only [Mir.Gen.hierarchy._round_nd, pure_eq_ok, ok_bind, frames_of_round ivs fs hfs, _lca_loop2_eq level n _ m hm,
      List.foldl_map]
    have hl : (List.foldl (fun m (iv : Rat × Rat) => Hierarchy.setBlock m (normIdx (frameOf iv.1 fs) n) (normIdx (frameOf iv.2 fs) n)
        (normIdx (frameOf iv.1 fs) n) (normIdx (frameOf iv.2 fs) n) level) m ivs) = lcaLevel fs n m level ivs := rfl
    rw [hl, ih _ (by rw [length_lcaLevel, hm])]
    rfl

/-- **`_lca` as translated = the hand model** (`lca`) for every hierarchy and every `frame_size > 0` (the declared
    precondition; the public functions reject the rest): the number of frames is never negative, so `lil_matrix` never
    raises; an empty hierarchy is the `ValueError` of `min([])` -/
theorem _lca_eq_model (h : Hier) (fs : Rat) (hfs : 0 < fs) : Mir.Gen.hierarchy._lca h fs = lca h fs := by
  unfold Mir.Gen.hierarchy._lca lca numFrames
  rw [_hierarchy_bounds_eq_model]
  cases hb : bounds h with
  | error e => rfl
  | ok b =>
    obtain ⟨lo, hi⟩ := b
    have hle : lo ≤ hi := by
      unfold bounds at hb
      cases hmin : (boundaries h).min? with
      | none => rw [hmin] at hb; cases hb
      | some a =>
        cases hmax : (boundaries h).max? with
        | none => rw [hmin, hmax] at hb; cases hb
        | some b =>
          rw [hmin, hmax] at hb
          injection hb with hb; injection hb with h1 h2
          subst h1; subst h2
          exact min?_le_max? hmin hmax
    have hd : 0 ≤ frameOf hi fs - frameOf lo fs := by
      have : frameOf lo fs ≤ frameOf hi fs := by
        unfold frameOf
        exact Rat.floor_monotone (div_le_div_of_nonneg_right hle (le_of_lt hfs))
      omega
    simp only [ok_bind, Mir.Gen.hierarchy._round, pure_eq_ok, round_sub_div hi lo fs hfs, lilZeros,
      if_neg (not_lt.2 hd)]
    rw [_lca_loop1_eq fs hfs (frameOf hi fs - frameOf lo fs).toNat _ _ (length_zeros _)]

/-- the C17 statement on the translated `_lca`: every entry is the deepest level at which the two frames share a segment -/
theorem gen_lca_spec (h : Hier) (fs : Rat) (hfs : 0 < fs) (m : Mat) (n : Nat)
    (hm : Mir.Gen.hierarchy._lca h fs = .ok m) (hn : numFrames h fs = .ok n) (i j : Nat) (hi : i < n) (hj : j < n) :
    entry m i j = some (lcaSpec h fs n i j) :=
  Mir.C17.lca_spec h fs m n (by rw [← _lca_eq_model h fs hfs]; exact hm) hn i j hi hj

example : Mir.Gen.hierarchy._lca [[(0, 4)], [(0, 2), (2, 4)]] 1 = .ok [[2, 2, 1, 1], [2, 2, 1, 1], [1, 1, 2, 2], [1, 1, 2, 2]]
    ∧ Mir.Gen.hierarchy._lca [] 1 = .error .valueError
    ∧ Mir.Gen.hierarchy._hierarchy_bounds [[(0, 4)], [(1/2, 2), (2, 9/2)]] = .ok (0, 9/2) := by
  refine ⟨by decide +kernel, by decide +kernel, by decide +kernel⟩

/-! ### `_meet` -/

/-- the translated inner loop of `_meet` over index pairs that are all in range: one `meetStep` per pair -/
theorem _meet_loop2_ok (level n : Nat) (frames : List (Int × Int)) :
    ∀ (pairs : List (Nat × Nat)) (m : Mat), m.length = n →
      (∀ ij ∈ pairs, ij.1 < frames.length ∧ ij.2 < frames.length) →
      Mir.Gen.hierarchy._meet_loop2 level frames pairs m
        = .ok (pairs.foldl (fun m ij => meetStep level m
            ((segAt (frames.map fun f => (normIdx f.1 n, normIdx f.2 n)) ij.1, ij.1),
             (segAt (frames.map fun f => (normIdx f.1 n, normIdx f.2 n)) ij.2, ij.2))) m) := by
  intro pairs
  induction pairs with
  | nil => intro m _ _; rfl
  | cons x t ih =>
    obtain ⟨i, j⟩ := x
    intro m hm hall
    obtain ⟨hi, hj⟩ := hall (i, j) List.mem_cons_self
    unfold Mir.Gen.hierarchy._meet_loop2
    have si : segAt (frames.map fun f => (normIdx f.1 n, normIdx f.2 n)) i = (normIdx frames[i].1 n, normIdx frames[i].2 n) := by
      simp [segAt, hi]
    have sj : segAt (frames.map fun f => (normIdx f.1 n, normIdx f.2 n)) j = (normIdx frames[j].1 n, normIdx frames[j].2 n) := by
      simp [segAt, hj]
    simp only [getItem_lt _ _ hi, getItem_lt _ _ hj, ok_bind, PyH.setBlock, hm, length_setBlock, List.foldl_cons]
    have hstep : meetStep level m
        ((segAt (frames.map fun f => (normIdx f.1 n, normIdx f.2 n)) i, i),
         (segAt (frames.map fun f => (normIdx f.1 n, normIdx f.2 n)) j, j))
        = (if i ≠ j then
            Hierarchy.setBlock (Hierarchy.setBlock m (normIdx frames[i].1 n) (normIdx frames[i].2 n)
              (normIdx frames[j].1 n) (normIdx frames[j].2 n) level)
              (normIdx frames[j].1 n) (normIdx frames[j].2 n) (normIdx frames[i].1 n) (normIdx frames[i].2 n) level
           else Hierarchy.setBlock m (normIdx frames[i].1 n) (normIdx frames[i].2 n)
              (normIdx frames[j].1 n) (normIdx frames[j].2 n) level) := by
      simp only [meetStep, si, sj]
    rw [hstep]
    by_cases hij : i = j
    · subst hij
      simp only [ne_eq, not_true_eq_false, decide_false, Bool.false_eq_true, if_false, pure_eq_ok, ok_bind]
      exact ih _ (by rw [length_setBlock, hm]) (fun ij h => hall ij (List.mem_cons_of_mem _ h))
    · simp only [ne_eq, hij, not_false_eq_true, decide_true, if_true, pure_eq_ok, ok_bind]
      exact ih _ (by rw [length_setBlock, length_setBlock, hm]) (fun ij h => hall ij (List.mem_cons_of_mem _ h))

/-- a label index past the intervals: `int_frames[seg]` raises `IndexError`, wherever in the loop it comes -/
theorem _meet_loop2_error (level : Nat) (frames : List (Int × Int)) :
    ∀ (pairs : List (Nat × Nat)) (m : Mat), (∃ ij ∈ pairs, ¬ (ij.1 < frames.length ∧ ij.2 < frames.length)) →
      Mir.Gen.hierarchy._meet_loop2 level frames pairs m = .error .indexError := by
  intro pairs
  induction pairs with
  | nil => rintro m ⟨ij, h, _⟩; cases h
  | cons x t ih =>
    obtain ⟨i, j⟩ := x
    intro m hex
    unfold Mir.Gen.hierarchy._meet_loop2
    by_cases hi : i < frames.length
    · by_cases hj : j < frames.length
      · have : ∃ ij ∈ t, ¬ (ij.1 < frames.length ∧ ij.2 < frames.length) := by
          obtain ⟨ij, hm, hbad⟩ := hex
          rcases List.mem_cons.1 hm with rfl | hm
          · exact absurd ⟨hi, hj⟩ hbad
          · exact ⟨ij, hm, hbad⟩
        simp only [getItem_lt _ _ hi, getItem_lt _ _ hj, ok_bind]
        split <;> simp only [pure_eq_ok, ok_bind] <;> exact ih _ this
      · simp only [getItem_lt _ _ hi, getItem_ge _ _ (Nat.le_of_not_lt hj), ok_bind, error_bind]
    · simp only [getItem_ge _ _ (Nat.le_of_not_lt hi), error_bind]

/-- the translated outer loop of `_meet` = the model's `meetLevels` (labels longer than the intervals: `IndexError`) -/
theorem _meet_loop1_eq (fs : Rat) (hfs : 0 < fs) (n : Nat) :
    ∀ (xs : List ((Ivals × List String) × Nat)) (m : Mat), m.length = n →
      Mir.Gen.hierarchy._meet_loop1 fs xs m = meetLevels fs n m xs := by
  intro xs
  induction xs with
  | nil => intro m _; rfl
  | cons x t ih =>
    obtain ⟨⟨ivs, labs⟩, level⟩ := x
    intro m hm
    unfold Mir.Gen.hierarchy._meet_loop1 meetLevels meetLevel
    simp only [Mir.Gen.hierarchy._round_nd, pure_eq_ok, ok_bind, frames_of_round ivs fs hfs, labelKeys]
    by_cases hlen : ivs.length < labs.length
    · rw [if_pos hlen, _meet_loop2_error]
      · rfl
      · refine ⟨(ivs.length, ivs.length), mem_triuAgree_diag _ _ (by simpa using hlen), ?_⟩
        simp
    · rw [if_neg hlen]
      have hle : (labs.map String.toLower).length ≤ (ivs.map (frameSlice fs n)).length := by
        simp only [List.length_map]; omega
      rw [_meet_loop2_ok level n _ _ m hm (by
        intro ij hij
        have := mem_triuAgree (i := ij.1) (j := ij.2) hij
        simp only [List.length_map] at this ⊢
        omega)]
      simp only [ok_bind, agreePairs_eq_triuAgree _ _ hle, List.foldl_map, List.map_map]
      have hnf : (List.map ((fun f : Int × Int => (normIdx f.1 n, normIdx f.2 n)) ∘ fun p : Rat × Rat => (frameOf p.1 fs, frameOf p.2 fs)) ivs)
          = List.map (frameSlice fs n) ivs := by
        apply List.map_congr_left; intro p _; rfl
      rw [hnf]
      exact ih _ (by rw [length_foldl_meetStep, hm])

/-- **`_meet` as translated = the hand model** (`meet`) for every hierarchy, all label lists (fewer label levels, shorter or
    longer label lists: the same `IndexError`) and every `frame_size > 0` -/
theorem _meet_eq_model (h : Hier) (labels : List (List String)) (fs : Rat) (hfs : 0 < fs) :
    Mir.Gen.hierarchy._meet h labels fs = meet h labels fs := by
  unfold Mir.Gen.hierarchy._meet meet numFrames
  rw [_hierarchy_bounds_eq_model]
  cases hb : bounds h with
  | error e => rfl
  | ok b =>
    obtain ⟨lo, hi⟩ := b
    have hle : lo ≤ hi := by
      unfold bounds at hb
      cases hmin : (boundaries h).min? with
      | none => rw [hmin] at hb; cases hb
      | some a =>
        cases hmax : (boundaries h).max? with
        | none => rw [hmin, hmax] at hb; cases hb
        | some b =>
          rw [hmin, hmax] at hb
          injection hb with hb; injection hb with h1 h2
          subst h1; subst h2
          exact min?_le_max? hmin hmax
    have hd : 0 ≤ frameOf hi fs - frameOf lo fs := by
      have : frameOf lo fs ≤ frameOf hi fs := by
        unfold frameOf
        exact Rat.floor_monotone (div_le_div_of_nonneg_right hle (le_of_lt hfs))
      omega
    simp only [ok_bind, Mir.Gen.hierarchy._round, pure_eq_ok, round_sub_div hi lo fs hfs, lilZeros,
      if_neg (not_lt.2 hd)]
    rw [_meet_loop1_eq fs hfs (frameOf hi fs - frameOf lo fs).toNat _ _ (length_zeros _)]

/-- the C17 statement on the translated `_meet`: every entry is the deepest level at which the two frames carry the same label -/
theorem gen_meet_spec (h : Hier) (labels : List (List String)) (fs : Rat) (hfs : 0 < fs) (m : Mat) (n : Nat)
    (hm : Mir.Gen.hierarchy._meet h labels fs = .ok m) (hn : numFrames h fs = .ok n) (i j : Nat) (hi : i < n) (hj : j < n) :
    entry m i j = some (meetSpec h labels fs n i j) :=
  Mir.C17.meet_spec h labels fs m n (by rw [← _meet_eq_model h labels fs hfs]; exact hm) hn i j hi hj

example : Mir.Gen.hierarchy._meet [[(0, 3)], [(0, 1), (1, 2), (2, 3)]] [["x"], ["a", "b", "A"]] 1
      = .ok [[2, 1, 2], [1, 2, 1], [2, 1, 2]]
    ∧ Mir.Gen.hierarchy._meet [[(0, 2)]] [["a", "b"]] 1 = .error .indexError := by
  refine ⟨by decide +kernel, by decide +kernel⟩

/-! ### `tmeasure`, `lmeasure` -/

/-- the tail shared by both public functions: two `_gauc` scores and the regenerated `util.f_measure` of them -/
theorem prf_tail (beta : Rat) (hb : 0 < beta) (a b : Mat) (tr : Bool) (wf : Option Nat) :
    (gauc a b tr wf >>= fun r => gauc b a tr wf >>= fun p =>
        Mir.Gen.util.f_measure p r beta >>= fun f => (pure (p, r, f) : Py (Rat × Rat × Rat)))
      = (gauc a b tr wf >>= fun r => gauc b a tr wf >>= fun p => pure (p, r, fMeasure p r beta)) := by
  cases hr : gauc a b tr wf with
  | error e => rfl
  | ok r =>
    cases hp : gauc b a tr wf with
    | error e => rfl
    | ok p =>
      simp only [ok_bind]
      rw [Mir.C06.Gen.f_measure_ok (Hierarchy.gauc_range hp).1 (Hierarchy.gauc_range hr).1 (ne_of_gt hb)]
      rfl

/-- **`tmeasure` as translated = the hand model** (`Hierarchy.tmeasure`) for ALL hierarchies, both `transitive` values, every
    window (`None`, below / equal to / above the frame size), every `frame_size` (≤ 0: the same `ValueError`) and `beta > 0`:
    the same value or the same exception class, in the same order of checks; the checked cast of the window's frame count
    never fires -/
theorem tmeasure_eq_model (ref est : Hier) (tr : Bool) (window : Option Rat) (fs beta : Rat) (hb : 0 < beta) :
    Mir.Gen.hierarchy.tmeasure ref est tr window fs beta = Hierarchy.tmeasure ref est tr window fs beta := by
  unfold Mir.Gen.hierarchy.tmeasure Hierarchy.tmeasure
  by_cases h0 : fs ≤ 0
  · simp only [h0, decide_true, if_true, throw_eq_error]
  · have hfs : 0 < fs := lt_of_not_ge h0
    simp only [h0, decide_false, Bool.false_eq_true, if_false]
    have tail := prf_tail beta hb
    cases window with
    | none =>
      simp only [pure_eq_ok, ok_bind, windowFrames, natOfIntOpt, validate_hier_intervals, _lca_eq_model _ _ hfs,
        _gauc_eq_model]
      cases validateHier ref with
      | error e => rfl
      | ok _ =>
        cases validateHier est with
        | error e => rfl
        | ok _ =>
          cases lca ref fs with
          | error e => rfl
          | ok rl =>
            cases lca est fs with
            | error e => rfl
            | ok el => simp only [ok_bind]; exact tail rl el tr none
    | some w =>
      by_cases hw : fs > w
      · simp only [hw, decide_true, if_true, throw_eq_error, windowFrames, error_bind]
      · have hk : 0 ≤ frameOf w fs := by
          unfold frameOf
          exact Rat.le_floor_iff.2 (by
            have : 0 ≤ w := le_trans (le_of_lt hfs) (le_of_not_gt hw)
            exact_mod_cast div_nonneg this (le_of_lt hfs))
        simp only [hw, decide_false, Bool.false_eq_true, if_false, Mir.Gen.hierarchy._round, pure_eq_ok, ok_bind, windowFrames,
          pyInt_round_div w fs hfs, natOfIntOpt, if_neg (not_lt.2 hk), validate_hier_intervals, _lca_eq_model _ _ hfs,
          _gauc_eq_model]
        cases validateHier ref with
        | error e => rfl
        | ok _ =>
          cases validateHier est with
          | error e => rfl
          | ok _ =>
            cases lca ref fs with
            | error e => rfl
            | ok rl =>
              cases lca est fs with
              | error e => rfl
              | ok el => simp only [ok_bind]; exact tail rl el tr _

/-- **`lmeasure` as translated = the hand model** (`Hierarchy.lmeasure`) for ALL hierarchies and label lists, every
    `frame_size` and `beta > 0` -/
theorem lmeasure_eq_model (ref : Hier) (rl : List (List String)) (est : Hier) (el : List (List String)) (fs beta : Rat)
    (hb : 0 < beta) :
    Mir.Gen.hierarchy.lmeasure ref rl est el fs beta = Hierarchy.lmeasure ref rl est el fs beta := by
  unfold Mir.Gen.hierarchy.lmeasure Hierarchy.lmeasure
  by_cases h0 : fs ≤ 0
  · simp only [h0, decide_true, if_true, throw_eq_error]
  · have hfs : 0 < fs := lt_of_not_ge h0
    simp only [h0, decide_false, Bool.false_eq_true, if_false, pure_eq_ok, ok_bind, validate_hier_intervals,
      _meet_eq_model _ _ _ hfs, _gauc_eq_model]
    have tail := prf_tail beta hb
    cases validateHier ref with
    | error e => rfl
    | ok _ =>
      cases validateHier est with
      | error e => rfl
      | ok _ =>
        cases meet ref rl fs with
        | error e => rfl
        | ok rm =>
          cases meet est el fs with
          | error e => rfl
          | ok em => simp only [ok_bind]; exact tail rm em true none

/-- the defaults of the translated signatures: `transitive=False, window=15.0, frame_size=0.1, beta=1.0` -/
theorem tmeasure_defaults (ref est : Hier) :
    Mir.Gen.hierarchy.tmeasure ref est = Hierarchy.tmeasure ref est false (some 15) (1 / 10) 1 :=
  tmeasure_eq_model ref est false (some 15) (1 / 10) 1 (by norm_num)

/-- C17 headline on the translated public function: whenever the translated `tmeasure` returns, recall is the
    triplet-ranking definition on the LCA matrices of (reference, estimate), precision the same with the roles exchanged,
    over `⌊window / frame_size⌋` frames, F is `f_measure` of the two, all in [0, 1] -/
theorem gen_tmeasure_spec (ref est : Hier) (tr : Bool) (window : Option Rat) (fs beta p r f : Rat) (hb : 0 < beta)
    (h : Mir.Gen.hierarchy.tmeasure ref est tr window fs beta = .ok (p, r, f)) :
    (∃ (n : Nat) (wf : Option Nat) (rl el : Mat),
      windowFrames window fs = .ok wf ∧ lca ref fs = .ok rl ∧ lca est fs = .ok el
      ∧ IsSquare n rl ∧ IsSquare n el
      ∧ r = gaucSpec rl el tr (winOf wf n) ∧ p = gaucSpec el rl tr (winOf wf n) ∧ f = fMeasure p r beta)
    ∧ (0 ≤ p ∧ p ≤ 1) ∧ (0 ≤ r ∧ r ≤ 1) ∧ (0 ≤ f ∧ f ≤ 1) := by
  rw [tmeasure_eq_model _ _ _ _ _ _ hb] at h
  exact ⟨Mir.C17.tmeasure_spec ref est tr window fs beta p r f h, Mir.C17.tmeasure_range ref est tr window fs beta p r f h⟩

/-- the same for the translated `lmeasure` (meet matrices, all level differences, no window) -/
theorem gen_lmeasure_spec (ref est : Hier) (rls els : List (List String)) (fs beta p r f : Rat) (hb : 0 < beta)
    (h : Mir.Gen.hierarchy.lmeasure ref rls est els fs beta = .ok (p, r, f)) :
    (∃ (n : Nat) (rm em : Mat),
      meet ref rls fs = .ok rm ∧ meet est els fs = .ok em ∧ IsSquare n rm ∧ IsSquare n em
      ∧ r = gaucSpec rm em true n ∧ p = gaucSpec em rm true n ∧ f = fMeasure p r beta)
    ∧ (0 ≤ p ∧ p ≤ 1) ∧ (0 ≤ r ∧ r ≤ 1) ∧ (0 ≤ f ∧ f ≤ 1) := by
  rw [lmeasure_eq_model _ _ _ _ _ _ hb] at h
  exact ⟨Mir.C17.lmeasure_spec ref est rls els fs beta p r f h, Mir.C17.lmeasure_range ref est rls els fs beta p r f h⟩

example : Mir.Gen.hierarchy.tmeasure [[(0, 4)], [(0, 2), (2, 4)]] [[(0, 4)], [(0, 1), (1, 4)]] true none 1 1 = .ok (1/3, 1/4, 2/7)
    ∧ Mir.Gen.hierarchy.tmeasure [[(0, 2)]] [[(0, 2)]] false (some (1/4)) (1/2) 1 = .error .valueError := by
  constructor <;> decide +kernel

end Mir.C17.Gen
