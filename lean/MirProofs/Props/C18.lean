import MirProofs.Lemmas.MultipitchInvariance
import MirProofs.Lemmas.MultipitchFastHit
/-!
  C18 — multipitch error accounting is exhaustive and consistent.

  `Mir.Multipitch.metrics` is the model of `mir_eval.multipitch.metrics` (pitches in the MIDI domain);
  `metrics … = .ok m` says that the input passed `validate`; `m.1` are the seven raw scores, `m.2` the seven
  chroma scores.  All statements hold for every number of frames and every number of pitches per frame.
-/
open Mir Mir.Multipitch

namespace Mir.C18

/-- total error = substitution + miss + false alarm, raw and chroma, for every valid input -/
theorem etot_eq_sum (rt et : List Rat) (rf ef : Frames) (w : Rat) (m : Seven × Seven)
    (h : metrics rt rf et ef w = .ok m) :
    m.1.etot = m.1.esub + m.1.emiss + m.1.efa ∧ m.2.etot = m.2.esub + m.2.emiss + m.2.efa := by
  obtain ⟨rfl, _, _⟩ := metrics_ok h
  exact ⟨seven_err_total _, seven_err_total _⟩

/-- the identity is pure arithmetic: it holds for EVERY three count arrays handed to `compute_err_score` -/
theorem compute_err_score_total (rows : List Row) :
    (computeErrScore rows).2.2.2 =
      (computeErrScore rows).1 + (computeErrScore rows).2.1 + (computeErrScore rows).2.2.1 :=
  err_total rows

/-- each of the four error scores is ≥ 0, raw and chroma -/
theorem err_nonneg (rt et : List Rat) (rf ef : Frames) (w : Rat) (m : Seven × Seven)
    (h : metrics rt rf et ef w = .ok m) :
    (0 ≤ m.1.esub ∧ 0 ≤ m.1.emiss ∧ 0 ≤ m.1.efa ∧ 0 ≤ m.1.etot) ∧
    (0 ≤ m.2.esub ∧ 0 ≤ m.2.emiss ∧ 0 ≤ m.2.efa ∧ 0 ≤ m.2.etot) := by
  obtain ⟨rfl, hr, he⟩ := metrics_ok h
  rw [metricsCore_eq w hr he]
  exact ⟨seven_err_nonneg (rowsP_good _ _), seven_err_nonneg (rowsP_good _ _)⟩

/-- accuracy ≤ min(precision, recall), raw and chroma -/
theorem acc_le_min_pr (rt et : List Rat) (rf ef : Frames) (w : Rat) (m : Seven × Seven)
    (h : metrics rt rf et ef w = .ok m) :
    m.1.accuracy ≤ min m.1.precision m.1.recall ∧ m.2.accuracy ≤ min m.2.precision m.2.recall := by
  obtain ⟨rfl, hr, he⟩ := metrics_ok h
  rw [metricsCore_eq w hr he]
  exact ⟨le_min (seven_acc_le (rowsP_good _ _)).1 (seven_acc_le (rowsP_good _ _)).2,
         le_min (seven_acc_le (rowsP_good _ _)).1 (seven_acc_le (rowsP_good _ _)).2⟩

/-- per frame: true positives ≤ min(#reference, #estimated), for both criteria and every window -/
theorem tp_le_min (w : Rat) (chroma : Bool) (r e : List Rat) :
    frameCount w chroma r e ≤ min r.length e.length :=
  Nat.le_min.2 ⟨hitCount_le_ref _ r e, hitCount_le_est _ r e⟩

/-- … and the same for every row `(tp_i, n_ref_i, n_est_i)` that `metrics` assembles -/
theorem rows_tp_le_min (w : Rat) (chroma : Bool) (rf ef : Frames) (hl : rf.length = ef.length) :
    ∀ x ∈ rowsOf w chroma rf ef, 0 ≤ x.1 ∧ x.1 ≤ min x.2.1 x.2.2 := by
  intro x hx
  have hg : Good (rowsOf w chroma rf ef) := by
    cases chroma
    · rw [rowsOf_raw w rf ef hl]; exact rowsP_good _ _
    · rw [rowsOf_chroma w rf ef hl]; exact rowsP_good _ _
  have := hg x hx
  exact ⟨this.1, le_min this.2.1 this.2.2⟩

/-- per frame the chroma count is never below the raw count (`circDist ≤ |a - b|` + monotonicity of the
    maximum matching); stated for the chroma-wrapped frames `metrics` passes and for unwrapped ones -/
theorem chroma_ge_raw (w : Rat) (r e : List Rat) :
    frameCount w false r e ≤ frameCount w true r e ∧
    frameCount w false r e ≤ frameCount w true (r.map fun m => fmod m 12) (e.map fun m => fmod m 12) := by
  have h1 : frameCount w false r e ≤ frameCount w true r e :=
    hitCount_mono (fun a b => raw_imp_chroma w a b) r e
  refine ⟨h1, ?_⟩
  have h2 : frameCount w true (r.map fun m => fmod m 12) (e.map fun m => fmod m 12) = frameCount w true r e :=
    hitCount_map _ _ (fun a b => chromaFeas_fmod w a b) r e
  rw [h2]; exact h1

/-- the raw per-frame count is exactly the size of `util.match_events(ref_frame, est_frame, window)`
    as the code computes it (sort, two `searchsorted`, slices, maximum matching) -/
theorem raw_count_is_match_events (w : Rat) (r e : List Rat) :
    frameCount w false r e = matchEventsSize r e w :=
  (matchEventsSize_eq_hitCount r e w).symm

/-- both counts are sizes of maximum one-to-one pairings of the respective criterion -/
theorem count_is_maximum_matching (w : Rat) (chroma : Bool) (r e : List Rat) :
    IsMaxSize (hitGraph (feasOf w chroma) r e) (frameCount w chroma r e) ∧
    (∀ i j, (i, j) ∈ hitGraph (feasOf w false) r e ↔ ∃ a b, r[i]? = some a ∧ e[j]? = some b ∧ |a - b| ≤ w) ∧
    (∀ i j, (i, j) ∈ hitGraph (feasOf w true) r e ↔
      ∃ a b, r[i]? = some a ∧ e[j]? = some b ∧ circDist a b 12 ≤ w) := by
  refine ⟨maxMatchSize_isMax _, ?_, ?_⟩
  · intro i j
    rw [mem_hitGraph]
    simp only [feasOf, Bool.false_eq_true, if_false, rawFeas_iff]
  · intro i j
    rw [mem_hitGraph]
    simp only [feasOf, if_true, chromaFeas_iff]

/-! ### resampling -/

/-- **Nearest-frame resampling.** For a sorted estimate time base `ts` (first stamp `lo`, last `hi`) with one
    frame per stamp, `resample_multipitch` returns one frame per target time `t`: the empty frame when `t` is
    outside `[lo, hi]`; otherwise the frame of a time stamp nearest to `t`, and among two different nearest
    stamps the EARLIER one (`interp1d(kind='nearest')` rounds half down). -/
theorem resample_nearest_spec (ts : List Rat) (fs : Frames) (tg : List Rat) (lo hi : Rat)
    (hs : ts.Pairwise (· ≤ ·)) (hl : ts.length = fs.length)
    (hlo : ts.head? = some lo) (hhi : ts.getLast? = some hi) :
    ∃ out, resample ts fs tg = .ok out ∧ out.length = tg.length ∧
      ∀ (k : Nat) (t : Rat), tg[k]? = some t → ∃ f, out[k]? = some f ∧
        ((t < lo ∨ hi < t) → f = []) ∧
        (lo ≤ t → t ≤ hi → ∃ (i : Nat) (x : Rat), ts[i]? = some x ∧ fs[i]? = some f ∧
          (∀ y ∈ ts, |x - t| ≤ |y - t|) ∧
          (∀ (j : Nat) (y : Rat), j < i → ts[j]? = some y → y < x → |x - t| < |y - t|)) := by
  have hne : ts ≠ [] := by rintro rfl; simp at hlo
  refine ⟨tg.map (resampleFrame ts fs), ?_, by simp, ?_⟩
  · unfold resample
    by_cases htg : tg = []
    · subst htg; simp; rfl
    · simp only [List.isEmpty_iff, htg, hne, if_false, hl, ne_eq, not_true_eq_false, resampleCore]
      rfl
  · intro k t hk
    refine ⟨resampleFrame ts fs t, by simp [List.getElem?_map, hk], ?_, ?_⟩
    · exact resampleFrame_outside hlo hhi
    · exact resampleFrame_inside hs hl hlo hhi

/-- an estimate without any frame resamples to empty frames only -/
theorem resample_empty_estimate (fs : Frames) (tg : List Rat) :
    resample [] fs tg = .ok (tg.map fun _ => []) := by
  unfold resample
  by_cases htg : tg = []
  · subst htg; simp; rfl
  · simp [htg]; rfl

/-- the index into `frequencies + [empty]` is always in range (no `IndexError` path) -/
theorem resample_index_in_range (ts : List Rat) (fs : Frames) (t : Rat) (hs : ts.Pairwise (· ≤ ·))
    (hl : ts.length = fs.length) : resampleIdx ts fs.length t < (fs ++ [[]]).length := by
  have := resampleIdx_le ts fs.length t hs hl
  simp only [List.length_append, List.length_cons, List.length_nil]
  omega

/-- what `validate` accepts has sorted time stamps (so the specification above applies inside `metrics`) -/
theorem valid_time_bases_sorted (rt et : List Rat) (rf ef : Frames) (h : valid rt rf et ef = true) :
    rt.Pairwise (· ≤ ·) ∧ et.Pairwise (· ≤ ·) ∧ rf.length = rt.length ∧ ef.length = et.length := by
  have hl := valid_lengths h
  simp only [valid, eventsOk, Bool.and_eq_true] at h
  exact ⟨sortedB_sorted _ h.1.1.1.1.1.2, sortedB_sorted _ h.1.1.1.1.2.2, hl⟩

/-- FULL-STRENGTH statement of the resampling clause: whenever the estimate's time base is not the
    reference's, the scores are those of the nearest-frame resampled estimate.  FALSE of the code as it is
    (see below): `metrics` decides "differs" with `np.allclose`, whose relative tolerance `1e-5·|t|` lets
    long recordings through unresampled although the stamps are whole frames apart. -/
def C18_resample_full_statement : Prop :=
  ∀ (rt et : List Rat) (rf ef : Frames) (w : Rat), valid rt rf et ef = true → et ≠ rt →
    metricsCore rt rf et ef w = metricsCore rt rf rt (resampleCore et ef rt) w

/-- witness: one frame at t = 16384 s, the estimate's stamp 1/8 s later.  Nearest-frame resampling leaves
    the reference time outside the estimate's range (miss error 1); the code compares the frames by index
    (miss error 0). -/
theorem C18_resample_full_statement_false : ¬ C18_resample_full_statement := by
  intro h
  have h1 := h [16384] [16384 + 1 / 8] [[60]] [[60]] (1 / 2) (by decide +kernel) (by decide +kernel)
  have h2 := congrArg (fun m => m.1.emiss) h1
  revert h2
  decide +kernel

/-- the strongest true version: whenever the guard of `metrics` fires (`size` differs or not `allclose`)
    the result is exactly the score of the nearest-frame resampled estimate on the reference's time base;
    the complement (`timeBasesDiffer = false` although `et ≠ rt`) is the known finding
    `multipitch_allclose_unequal_timebase`. -/
theorem resampled_when_time_bases_differ_partial (rt et : List Rat) (rf ef : Frames) (w : Rat)
    (hd : timeBasesDiffer rt et = true) :
    metricsCore rt rf et ef w = metricsCore rt rf rt (resampleCore et ef rt) w := by
  unfold metricsCore
  rw [alignedEst_self]
  simp only [alignedEst, hd, if_true]

/-- time bases of different sizes always differ; identical ones never do -/
theorem time_base_guard (rt et : List Rat) :
    (et.length ≠ rt.length → timeBasesDiffer rt et = true) ∧ timeBasesDiffer rt rt = false :=
  ⟨timeBasesDiffer_of_length, timeBasesDiffer_self rt⟩

/-! ### empty-reference conventions -/

/-- a reference without any pitch: all four error scores, recall, precision and accuracy are 0
    (raw and chroma) whatever the estimate contains -/
theorem empty_reference_zeros (rt et : List Rat) (rf ef : Frames) (w : Rat) (m : Seven × Seven)
    (h : metrics rt rf et ef w = .ok m) (hempty : ∀ f ∈ rf, f = []) :
    m.1 = ⟨0, 0, 0, 0, 0, 0, 0⟩ ∧ m.2 = ⟨0, 0, 0, 0, 0, 0, 0⟩ := by
  obtain ⟨rfl, hr, he⟩ := metrics_ok h
  rw [metricsCore_eq w hr he]
  have key : ∀ feas : Rat → Rat → Bool,
      sevenOf (rowsP feas (rf.zip (alignedEst rt et ef))) = ⟨0, 0, 0, 0, 0, 0, 0⟩ := by
    intro feas
    set ps := rf.zip (alignedEst rt et ef) with hps
    have hg := rowsP_good feas ps
    have hR : refSum (rowsP feas ps) = 0 := by
      rw [refSum_rowsP_eq]
      apply List.sum_eq_zero
      intro x hx
      obtain ⟨p, hp, rfl⟩ := List.mem_map.1 hx
      have := hempty p.1 (List.of_mem_zip hp).1
      simp [this]
    have hT : tpSum (rowsP feas ps) = 0 := by
      have := hg.tp_nonneg; have := hg.tp_le_ref; omega
    have hacc : computeAccuracy (rowsP feas ps) = (0, 0, 0) := by
      rw [computeAccuracy_accOf, hT]; exact accOf_zero _ _
    have herr := err_empty_reference hR
    unfold sevenOf
    rw [hacc, herr]
  exact ⟨key _, key _⟩

/-- `compute_err_score` returns four zeros as soon as Σ n_ref = 0 -/
theorem err_score_empty_reference (rows : List Row) (h : sumBy (fun x => x.2.1) rows = 0) :
    computeErrScore rows = (0, 0, 0, 0) := err_empty_reference h

/-! ### non-vacuity -/

/-- a valid input whose estimate lives on another time base (half a hop later, sparser) -/
example : ∃ m, metrics [0, 1 / 4, 1 / 2, 3 / 4] [[60, 64], [60], [], [67, 72]] [1 / 8, 5 / 8] [[60, 76], [55]]
    = .ok m ∧ timeBasesDiffer [0, 1 / 4, 1 / 2, 3 / 4] [1 / 8, 5 / 8] = true :=
  ⟨_, metrics_of_valid _ (by decide +kernel), by decide +kernel⟩

/-- the resampling hypotheses are satisfiable, with a tie: t = 3/8 is half-way between 1/8 and 5/8 -/
example : ([1 / 8, 5 / 8] : List Rat).Pairwise (· ≤ ·) ∧ ([1 / 8, 5 / 8] : List Rat).head? = some (1 / 8) ∧
    ([1 / 8, 5 / 8] : List Rat).getLast? = some (5 / 8) ∧
    resampleCore [1 / 8, 5 / 8] [[60, 76], [55]] [0, 1 / 4, 3 / 8, 3 / 4] = [[], [60, 76], [60, 76], []] := by
  refine ⟨by simp; norm_num, rfl, rfl, by decide +kernel⟩

/-- an all-empty reference is a valid input -/
example : valid [0, 1] [[], []] [0, 1] [[60], []] = true := by decide +kernel

end Mir.C18
