import MirGen.Multipitch
import MirProofs.Lemmas.PyMultipitch
import MirProofs.Props.C18
/-!
  C18 (regenerated) — the count-level functions of `mir_eval/multipitch.py` (`compute_num_freqs`,
  `compute_num_true_positives`, `compute_accuracy`, `compute_err_score`), `resample_multipitch`, `midi_to_chroma` and
  `metrics` AS TRANSLATED from the source on every run (`lean/MirGen/Multipitch.lean`,
  harness/translate/multipitch.py) equal the hand-written model `MirModel/Multipitch.lean`, for ALL inputs.
  Consequence: the C18 statements (E_tot = E_sub + E_miss + E_fa, every error score ≥ 0, accuracy ≤ min(P, R), nearest-
  frame resampling) are theorems about the code as translated; they are re-stated below on the translated definitions.

  Scores are `Segment.Num` in the generated code (NumPy-scalar division never raises: `nan` / `±inf` are values); the
  hand model's scores are `Rat`.  `num3` / `num4` / `num14` embed the finite ones.
-/
set_option linter.unusedSimpArgs false
namespace Mir.C18.Gen
open Mir Mir.Multipitch
open Mir.Segment (Num npDiv)
open Mir.PyMP (ok_bind error_bind)

def num3 (a : Rat × Rat × Rat) : Num × Num × Num := (.val a.1, .val a.2.1, .val a.2.2)
def num4 (e : Rat × Rat × Rat × Rat) : Num × Num × Num × Num := (.val e.1, .val e.2.1, .val e.2.2.1, .val e.2.2.2)

theorem npDiv_of_ne {a b : Rat} (h : b ≠ 0) : npDiv a b = .val (a / b) := by
  unfold npDiv; rw [if_neg h]

theorem divNp_eq (a b : Rat) : PyM.divNp a b = npDiv a b := rfl

theorem resample_of_len' {ts : List Rat} {fs : Frames} {tg : List Rat} (h : fs.length = ts.length) :
    resample ts fs tg = .ok (resampleCore ts fs tg) := PyMP.resample_of_len tg h.symm

/-! ### `compute_num_freqs`, `midi_to_chroma` -/

/-- **`compute_num_freqs` as translated = the hand model** (`numFreqs`), for every list of frames -/
theorem compute_num_freqs_eq_model (fs : Frames) :
    Mir.Gen.multipitch.compute_num_freqs fs = .ok (natsToInts (numFreqs fs)) := by
  unfold Mir.Gen.multipitch.compute_num_freqs natsToInts numFreqs
  simp only [List.map_map]
  rfl

/-- **`midi_to_chroma` as translated = the hand model** (`midiToChroma`) -/
theorem midi_to_chroma_eq_model (fs : Frames) :
    Mir.Gen.multipitch.midi_to_chroma fs = .ok (midiToChroma fs) := rfl

/-! ### `compute_accuracy` -/

/-- on the three columns of any list of rows the translated `compute_accuracy` is the hand model -/
theorem compute_accuracy_rows (rows : List Row) :
    Mir.Gen.multipitch.compute_accuracy (rows.map fun x => x.1) (rows.map fun x => x.2.1) (rows.map fun x => x.2.2) =
      .ok (num3 (computeAccuracy rows)) := by
  unfold Mir.Gen.multipitch.compute_accuracy computeAccuracy num3
  simp only [PyMP.vadd, PyMP.vsub, PyMP.bcast_eq_len, List.length_map, PyMP.zipWith_cols, PyMP.vsum, sumBy, ok_bind,
    divNp_eq, decide_eq_true_eq, gt_iff_lt, ofInt]
  have key : ∀ (T D : Int), (if 0 < D then npDiv (T : Rat) (D : Rat) else Num.val 0)
      = Num.val (if 0 < D then (T : Rat) / (D : Rat) else 0) := by
    intro T D
    by_cases h : 0 < D
    · rw [if_pos h, if_pos h, npDiv_of_ne (by exact_mod_cast (ne_of_gt h))]
    · rw [if_neg h, if_neg h]
  simp only [key]
  first
    | rfl
    | (simp only [Int.add_comm, Int.min_comm, Int.max_comm]; rfl)       -- operands of a commutative op exchanged

/-- **`compute_accuracy` as translated = the hand model** for all equally long count arrays (any length incl. empty,
    zeros, inconsistent or negative counts): precision / recall / accuracy with their zero-denominator guards -/
theorem compute_accuracy_eq_model (tp nr ne : List Int) (h1 : tp.length = nr.length) (h2 : nr.length = ne.length) :
    Mir.Gen.multipitch.compute_accuracy tp nr ne = .ok (num3 (computeAccuracy (zip3 tp nr ne))) := by
  obtain ⟨e1, e2, e3⟩ := PyMP.unzip3 tp nr ne h1 h2
  have := compute_accuracy_rows (zip3 tp nr ne)
  rwa [e1, e2, e3] at this

/-- unequal lengths, no operand of length 1 (NumPy would broadcast that one): `ValueError`, as the hand model's
    protocol handler says -/
theorem compute_accuracy_unequal (tp nr ne : List Int) (h : ¬ (tp.length = nr.length ∧ nr.length = ne.length))
    (ht : tp.length ≠ 1) (hr : nr.length ≠ 1) (he : ne.length ≠ 1) :
    Mir.Gen.multipitch.compute_accuracy tp nr ne = .error .valueError := by
  unfold Mir.Gen.multipitch.compute_accuracy
  simp only [PyMP.vadd, PyMP.vsub]
  by_cases h2 : ne.length = nr.length
  · -- the sum is fine (in either operand order), the difference with `true_positives` is not
    simp only [PyMP.bcast_eq_len _ h2, PyMP.bcast_eq_len _ h2.symm, ok_bind]
    rw [PyMP.bcast_error]
    · rfl
    · simp only [List.length_zipWith, h2, Nat.min_self]; intro h3; exact h ⟨h3.symm, h2.symm⟩
    · simp only [List.length_zipWith, h2, Nat.min_self]; exact hr
    · exact ht
  · simp only [PyMP.bcast_error _ h2 he hr, PyMP.bcast_error _ (Ne.symm h2) hr he]
    rfl

/-! ### `compute_err_score` -/

/-- Σ n_ref = 0: four zeros whatever the lengths are (the function returns before any array arithmetic) -/
theorem compute_err_score_empty_reference (tp nr ne : List Int) (h : nr.sum = 0) :
    Mir.Gen.multipitch.compute_err_score tp nr ne = .ok (.val 0, .val 0, .val 0, .val 0) := by
  unfold Mir.Gen.multipitch.compute_err_score
  simp only [PyMP.vsum, h, Int.cast_zero, decide_true, if_true]
  try rfl

/-- on the three columns of any list of rows the translated `compute_err_score` is the hand model -/
theorem compute_err_score_rows (rows : List Row) :
    Mir.Gen.multipitch.compute_err_score (rows.map fun x => x.1) (rows.map fun x => x.2.1) (rows.map fun x => x.2.2) =
      .ok (num4 (computeErrScore rows)) := by
  by_cases h0 : sumBy (fun x => x.2.1) rows = 0
  · rw [compute_err_score_empty_reference _ _ _ h0, err_empty_reference (show refSum rows = 0 from h0)]
    rfl
  · have hq : ((((rows.map fun x => x.2.1).sum : Int)) : Rat) ≠ 0 := by exact_mod_cast h0
    rw [PyMP.computeErrScore_of_ne rows h0]
    unfold Mir.Gen.multipitch.compute_err_score num4
    simp only [PyMP.vsum, sumBy, decide_eq_true_eq, if_neg hq, if_neg (Ne.symm hq), PyMP.vsub, PyMP.stackMin_eq_len, PyMP.stackMax_eq_len,
      PyMP.bcast_eq_len, List.length_map, List.length_zipWith, Nat.min_self, PyMP.zipWith_cols, PyMP.maskFill_cols,
      ok_bind, divNp_eq, npDiv_of_ne hq, ofInt]
    first
      | rfl
      | (simp only [Int.add_comm, Int.min_comm, Int.max_comm]; rfl)     -- operands of a commutative op exchanged

/-- **`compute_err_score` as translated = the hand model** for all equally long count arrays: E_sub, E_miss, E_fa,
    E_tot from the elementwise min / max / clipped differences, and the four zeros of an all-empty reference -/
theorem compute_err_score_eq_model (tp nr ne : List Int) (h1 : tp.length = nr.length) (h2 : nr.length = ne.length) :
    Mir.Gen.multipitch.compute_err_score tp nr ne = .ok (num4 (computeErrScore (zip3 tp nr ne))) := by
  obtain ⟨e1, e2, e3⟩ := PyMP.unzip3 tp nr ne h1 h2
  have := compute_err_score_rows (zip3 tp nr ne)
  rwa [e1, e2, e3] at this

/-- Σ n_ref ≠ 0, reference and estimate counts of different lengths: `ValueError` (the stacked `np.min` is ragged) -/
theorem compute_err_score_ragged (tp nr ne : List Int) (h : nr.sum ≠ 0) (hl : nr.length ≠ ne.length) :
    Mir.Gen.multipitch.compute_err_score tp nr ne = .error .valueError := by
  unfold Mir.Gen.multipitch.compute_err_score
  have hq : ((nr.sum : Int) : Rat) ≠ 0 := by exact_mod_cast h
  -- whatever the order of the statements: the two differences either raise ValueError or yield arrays, the stacks raise
  rcases PyMP.bcast_cases (· - ·) nr ne with e1 | ⟨c1, e1⟩ <;>
  rcases PyMP.bcast_cases (· - ·) ne nr with e2 | ⟨c2, e2⟩ <;>
  · simp only [PyMP.vsum, PyMP.vsub, decide_eq_true_eq, if_neg hq, if_neg (Ne.symm hq), e1, e2, PyMP.stackMin_error hl,
      PyMP.stackMax_error hl, PyMP.stackMin_error (Ne.symm hl), PyMP.stackMax_error (Ne.symm hl)]
    rfl

/-! ### `compute_num_true_positives` -/

/-- the translated `for` loop: with `pre` already written and `post` still to be written, the loop stores one count
    per remaining pair of frames and leaves the rest of `post` (the zeros of `np.zeros`) behind -/
theorem compute_num_true_positives_loop_eq (w : Rat) (c : Bool) :
    ∀ (ps : List (List Rat × List Rat)) (pre post : List Int), ps.length ≤ post.length →
      Mir.Gen.multipitch.compute_num_true_positives_loop1 w c pre.length ps (pre ++ post) =
        .ok (pre ++ ps.map (fun p => ((frameCount w c p.1 p.2 : Nat) : Int)) ++ post.drop ps.length)
  | [], pre, post, _ => by simp [Mir.Gen.multipitch.compute_num_true_positives_loop1]; rfl
  | (r, e) :: ps, pre, [], h => by simp at h
  | (r, e) :: ps, pre, x :: post, h => by
      have ih := compute_num_true_positives_loop_eq w c ps (pre ++ [(frameCount w c r e : Int)]) post
        (by simpa using h)
      simp only [List.length_append, List.length_cons, List.length_nil, Nat.zero_add, List.append_assoc,
        List.cons_append, List.nil_append] at ih
      simp only [Mir.Gen.multipitch.compute_num_true_positives_loop1, PyMP.match_len_eq, PyMP.setItem_append, ok_bind,
        ih, List.map_cons, List.length_cons, List.drop_succ_cons, List.cons_append, List.append_assoc]

/-- **`compute_num_true_positives` as translated = the hand model** (`numTruePositives`) for all lists of frames, every
    window, both criteria: one maximum-matching size per zipped pair of frames (`zip` stops at the shorter list), the
    remaining entries of the `len(ref_freqs)` zeros stay; no `IndexError` path -/
theorem compute_num_true_positives_eq_model (rf ef : Frames) (w : Rat) (c : Bool) :
    Mir.Gen.multipitch.compute_num_true_positives rf ef w c = .ok (natsToInts (numTruePositives w c rf ef)) := by
  unfold Mir.Gen.multipitch.compute_num_true_positives
  have hl : (List.zip rf ef).length ≤ (PyMP.zeros rf.length).length := by
    simp only [PyMP.zeros, List.length_replicate, List.length_zip]; omega
  have := compute_num_true_positives_loop_eq w c (List.zip rf ef) [] (PyMP.zeros rf.length) hl
  simp only [List.length_nil, List.nil_append, PyMP.zeros] at this
  simp only [PyM.len, PyMP.zeros, this, ok_bind, PyMP.numTruePositives_shape, List.drop_replicate]
  try rfl

/-- the defaults of the translated signature: `window=0.5`, `chroma=False` -/
theorem compute_num_true_positives_defaults (rf ef : Frames) :
    Mir.Gen.multipitch.compute_num_true_positives rf ef = .ok (natsToInts (numTruePositives (1 / 2) false rf ef)) :=
  compute_num_true_positives_eq_model rf ef _ _

/-! ### `resample_multipitch` -/

/-- **`resample_multipitch` as translated = the hand model** (`resample`) for ALL time bases, frame lists and targets
    (empty target, empty estimate, unequal lengths → the `ValueError` of `interp1d`, unsorted stamps): the index into
    `frequencies + [empty]` is the fill value `len(frequencies)` outside `[times[0], times[-1]]` and the nearest-
    neighbour index inside, and it is always in range (no `IndexError` path) -/
theorem resample_multipitch_eq_model (ts : List Rat) (fs : Frames) (tg : List Rat) :
    Mir.Gen.multipitch.resample_multipitch ts fs tg = resample ts fs tg := by
  unfold Mir.Gen.multipitch.resample_multipitch resample
  simp only [PyM.len, decide_eq_true_eq, List.length_eq_zero_iff, List.isEmpty_iff]
  by_cases h1 : tg = []
  · rw [if_pos h1, if_pos h1]
  · rw [if_neg h1, if_neg h1]
    by_cases h2 : ts = []
    · rw [if_pos h2, if_pos h2, List.map_const']
    · rw [if_neg h2, if_neg h2]
      by_cases h3 : ts.length = fs.length
      · rw [if_neg (not_not.2 h3), PyMP.interp1d_nearest_arange ts fs.length tg h3 h2]
        simp only [ok_bind]
        rw [PyMP.mapPy_ok (fun i => PyMP.listGet (fs ++ [[]]) i) (fun i => ((fs ++ [[]])[i]?).getD [])]
        · unfold resampleCore
          rw [if_neg (by simpa using h2)]
          simp only [List.map_map, ok_bind]
          refine congrArg Except.ok ?_
          apply List.map_congr_left
          intro t _
          have := PyMP.listGet_resampleFrame ts fs t h3
          unfold PyMP.listGet at this
          simp only [Function.comp]
          cases hg : (fs ++ [[]])[resampleIdx ts fs.length t]? with
          | none => rw [hg] at this; cases this
          | some f =>
            rw [hg] at this
            injection this with this
        · intro i hi
          obtain ⟨t, _, rfl⟩ := List.mem_map.1 hi
          have := PyMP.listGet_resampleFrame ts fs t h3
          unfold PyMP.listGet at this ⊢
          cases hg : (fs ++ [[]])[resampleIdx ts fs.length t]? with
          | none => rw [hg] at this; cases this
          | some f => rfl
      · rw [if_pos h3, PyMP.interp1d_nearest_len_error ts fs.length tg h3]
        rfl

/-! ### `metrics` -/

/-- the fourteen scores of the hand model in the order `metrics` returns them, as finite `Num`s -/
def num14 (m : Seven × Seven) :
    Num × Num × Num × Num × Num × Num × Num × Num × Num × Num × Num × Num × Num × Num :=
  (.val m.1.precision, .val m.1.recall, .val m.1.accuracy, .val m.1.esub, .val m.1.emiss, .val m.1.efa, .val m.1.etot,
   .val m.2.precision, .val m.2.recall, .val m.2.accuracy, .val m.2.esub, .val m.2.emiss, .val m.2.efa, .val m.2.etot)

theorem rows_lengths (w : Rat) (rt et : List Rat) (rf ef : Frames) (hr : rf.length = rt.length)
    (he : ef.length = et.length) :
    (natsToInts (numTruePositives w false rf (alignedEst rt et ef))).length = (natsToInts (numFreqs rf)).length ∧
    (natsToInts (numTruePositives w true (midiToChroma rf) (midiToChroma (alignedEst rt et ef)))).length =
      (natsToInts (numFreqs rf)).length ∧
    (natsToInts (numFreqs rf)).length = (natsToInts (numFreqs (alignedEst rt et ef))).length := by
  simp only [natsToInts, numFreqs, List.length_map, PyMP.numTruePositives_length, midiToChroma,
    alignedEst_length he, hr, and_self]

/-- **`metrics` as translated = the hand model** (`Multipitch.metrics`) for ALL inputs and every `window` keyword
    (absent = the default 0.5 of `compute_num_true_positives`, read from the translated signature): validation, the
    resampling guard `est_time.size != ref_time.size or not np.allclose(...)`, the counts, the raw and the chroma true
    positives, and the assembly of the 14 scores (chroma scores from the chroma TP vector, both with the SAME
    `n_ref`, `n_est`). -/
theorem metrics_eq_model (rt : List Rat) (rf : Frames) (et : List Rat) (ef : Frames) (w : Option Rat) :
    Mir.Gen.multipitch.metrics rt rf et ef w = (Multipitch.metrics rt rf et ef (w.getD (1 / 2))).map num14 := by
  unfold Mir.Gen.multipitch.metrics PyMP.validate Multipitch.validate Multipitch.metrics
  by_cases hv : valid rt rf et ef = true
  · obtain ⟨hr, he⟩ := valid_lengths hv
    rw [if_pos hv, if_pos hv]
    simp only [ok_bind, pure_bind, resample_multipitch_eq_model, resample_of_len' he]
    have hc : ((decide (PyM.len et ≠ PyM.len rt) || !PyMP.allclose et rt) = true) = (timeBasesDiffer rt et = true) := by
      unfold timeBasesDiffer PyMP.allclose PyM.len
      cases allClose et rt <;> by_cases hh : et.length = rt.length <;> simp [hh]
    have hal : (if (decide (PyM.len et ≠ PyM.len rt) || !PyMP.allclose et rt) = true
        then (pure (resampleCore et ef rt) : Py Frames) else pure ef) = pure (alignedEst rt et ef) := by
      unfold alignedEst
      by_cases hd : timeBasesDiffer rt et = true
      · rw [if_pos (hc.mpr hd), if_pos hd]
      · rw [if_neg (fun h => hd (hc.mp h)), if_neg hd]
    simp only [hal, pure_bind]
    obtain ⟨l1, l2, l3⟩ := rows_lengths (w.getD (1 / 2)) rt et rf ef hr he
    simp only [ok_bind, PyMP.frequencies_to_midi, midi_to_chroma_eq_model, compute_num_freqs_eq_model,
      compute_num_true_positives_eq_model, compute_accuracy_eq_model _ _ _ l1 l3,
      compute_accuracy_eq_model _ _ _ l2 l3, compute_err_score_eq_model _ _ _ l1 l3,
      compute_err_score_eq_model _ _ _ l2 l3]
    rfl
  · rw [if_neg hv, if_neg hv]
    rfl

/-- the `window` default of `metrics` is the one of the translated `compute_num_true_positives` signature (0.5) -/
theorem metrics_default_window (rt : List Rat) (rf : Frames) (et : List Rat) (ef : Frames) :
    Mir.Gen.multipitch.metrics rt rf et ef = (Multipitch.metrics rt rf et ef (1 / 2)).map num14 :=
  metrics_eq_model rt rf et ef none

/-! ### the C18 headline statements on the translated definitions -/

/-- **E_tot = E_sub + E_miss + E_fa** on the translated `compute_err_score`, for ALL equally long count arrays (pure
    arithmetic: no consistency of the counts is needed); all four scores are finite -/
theorem gen_err_total (tp nr ne : List Int) (h1 : tp.length = nr.length) (h2 : nr.length = ne.length) :
    ∃ s m f t : Rat, Mir.Gen.multipitch.compute_err_score tp nr ne = .ok (.val s, .val m, .val f, .val t) ∧
      t = s + m + f :=
  ⟨_, _, _, _, compute_err_score_eq_model tp nr ne h1 h2, Mir.C18.compute_err_score_total (zip3 tp nr ne)⟩

/-- every score of the translated `compute_accuracy` / `compute_err_score` is FINITE on equally long arrays (the
    zero-denominator guards leave no `nan` / `inf` path), and consistent counts (`0 ≤ tp ≤ min(n_ref, n_est)` per
    frame) give error scores ≥ 0 and accuracy ≤ min(precision, recall) -/
theorem gen_scores_consistent (tp nr ne : List Int) (h1 : tp.length = nr.length) (h2 : nr.length = ne.length)
    (hg : ∀ x ∈ zip3 tp nr ne, 0 ≤ x.1 ∧ x.1 ≤ x.2.1 ∧ x.1 ≤ x.2.2) :
    ∃ p r a s m f t : Rat,
      Mir.Gen.multipitch.compute_accuracy tp nr ne = .ok (.val p, .val r, .val a) ∧
      Mir.Gen.multipitch.compute_err_score tp nr ne = .ok (.val s, .val m, .val f, .val t) ∧
      0 ≤ s ∧ 0 ≤ m ∧ 0 ≤ f ∧ 0 ≤ t ∧ a ≤ p ∧ a ≤ r := by
  refine ⟨_, _, _, _, _, _, _, compute_accuracy_eq_model tp nr ne h1 h2, compute_err_score_eq_model tp nr ne h1 h2, ?_⟩
  have hn := Multipitch.err_nonneg (rows := zip3 tp nr ne) hg
  have ha := (seven_acc_le (rows := zip3 tp nr ne) hg)
  simp only [sevenOf] at ha
  exact ⟨hn.1, hn.2.1, hn.2.2.1, hn.2.2.2, ha.1, ha.2⟩

/-- **the 14 scores of the translated `metrics`**: whenever it returns, every score is finite and they are the hand
    model's — so total error = substitution + miss + false alarm, each error score ≥ 0 and accuracy ≤ min(precision,
    recall), raw and chroma (C18 `etot_eq_sum`, `err_nonneg`, `acc_le_min_pr` on the code as translated) -/
theorem gen_metrics_headline (rt : List Rat) (rf : Frames) (et : List Rat) (ef : Frames) (w : Option Rat)
    (r : Num × Num × Num × Num × Num × Num × Num × Num × Num × Num × Num × Num × Num × Num)
    (h : Mir.Gen.multipitch.metrics rt rf et ef w = .ok r) :
    ∃ m : Seven × Seven, r = num14 m ∧
      (m.1.etot = m.1.esub + m.1.emiss + m.1.efa ∧ m.2.etot = m.2.esub + m.2.emiss + m.2.efa) ∧
      ((0 ≤ m.1.esub ∧ 0 ≤ m.1.emiss ∧ 0 ≤ m.1.efa ∧ 0 ≤ m.1.etot) ∧
       (0 ≤ m.2.esub ∧ 0 ≤ m.2.emiss ∧ 0 ≤ m.2.efa ∧ 0 ≤ m.2.etot)) ∧
      (m.1.accuracy ≤ min m.1.precision m.1.recall ∧ m.2.accuracy ≤ min m.2.precision m.2.recall) := by
  rw [metrics_eq_model] at h
  cases hm : Multipitch.metrics rt rf et ef (w.getD (1 / 2)) with
  | error e => rw [hm] at h; cases h
  | ok m =>
    rw [hm] at h
    injection h with h
    exact ⟨m, h.symm, Mir.C18.etot_eq_sum rt et rf ef _ m hm, Mir.C18.err_nonneg rt et rf ef _ m hm,
      Mir.C18.acc_le_min_pr rt et rf ef _ m hm⟩

/-- the translated `metrics` returns exactly on the inputs `validate` accepts (otherwise `ValueError`) -/
theorem gen_metrics_total (rt : List Rat) (rf : Frames) (et : List Rat) (ef : Frames) (w : Option Rat) :
    (valid rt rf et ef = true → ∃ m, Mir.Gen.multipitch.metrics rt rf et ef w = .ok (num14 m)) ∧
    (valid rt rf et ef ≠ true → Mir.Gen.multipitch.metrics rt rf et ef w = .error .valueError) := by
  rw [metrics_eq_model]
  constructor
  · intro hv; exact ⟨_, by rw [metrics_of_valid _ hv]; rfl⟩
  · intro hv; unfold Multipitch.metrics; rw [if_neg hv]; rfl

/-- **per frame TP ≤ min(#ref, #est)** on the translated count functions (raw criterion, equally many frames) -/
theorem gen_tp_le_min (rf ef : Frames) (w : Rat) (hl : rf.length = ef.length) :
    ∃ tp nr ne, Mir.Gen.multipitch.compute_num_true_positives rf ef w false = .ok tp ∧
      Mir.Gen.multipitch.compute_num_freqs rf = .ok nr ∧ Mir.Gen.multipitch.compute_num_freqs ef = .ok ne ∧
      ∀ x ∈ zip3 tp nr ne, 0 ≤ x.1 ∧ x.1 ≤ min x.2.1 x.2.2 := by
  refine ⟨_, _, _, compute_num_true_positives_eq_model rf ef w false, compute_num_freqs_eq_model rf,
    compute_num_freqs_eq_model ef, ?_⟩
  have := Mir.C18.rows_tp_le_min w false rf ef hl
  simpa [rowsOf] using this

/-- **nearest-frame resampling** (C18 `resample_nearest_spec`) on the translated `resample_multipitch` -/
theorem gen_resample_nearest_spec (ts : List Rat) (fs : Frames) (tg : List Rat) (lo hi : Rat)
    (hs : ts.Pairwise (· ≤ ·)) (hl : ts.length = fs.length)
    (hlo : ts.head? = some lo) (hhi : ts.getLast? = some hi) :
    ∃ out, Mir.Gen.multipitch.resample_multipitch ts fs tg = .ok out ∧ out.length = tg.length ∧
      ∀ (k : Nat) (t : Rat), tg[k]? = some t → ∃ f, out[k]? = some f ∧
        ((t < lo ∨ hi < t) → f = []) ∧
        (lo ≤ t → t ≤ hi → ∃ (i : Nat) (x : Rat), ts[i]? = some x ∧ fs[i]? = some f ∧
          (∀ y ∈ ts, |x - t| ≤ |y - t|) ∧
          (∀ (j : Nat) (y : Rat), j < i → ts[j]? = some y → y < x → |x - t| < |y - t|)) := by
  rw [resample_multipitch_eq_model]
  exact Mir.C18.resample_nearest_spec ts fs tg lo hi hs hl hlo hhi

/-! ### non-vacuity -/

example : Mir.Gen.multipitch.compute_accuracy [1, 0, 2] [2, 1, 2] [1, 1, 3] = .ok (.val (3 / 5), .val (3 / 5), .val (3 / 7)) ∧
    Mir.Gen.multipitch.compute_accuracy [] [] [] = .ok (.val 0, .val 0, .val 0) ∧
    Mir.Gen.multipitch.compute_accuracy [0, 0] [0, 0] [1, 2] = .ok (.val 0, .val 0, .val 0) ∧
    -- NumPy broadcasting of a length-1 operand: the sums are NOT broadcast
    Mir.Gen.multipitch.compute_accuracy [1] [1, 2, 3] [1, 2, 3] = .ok (.val (1 / 6), .val (1 / 6), .val (1 / 9)) ∧
    Mir.Gen.multipitch.compute_accuracy [1, 2] [2, 3, 4] [1, 3, 3] = .error .valueError := by decide +kernel

example : Mir.Gen.multipitch.compute_err_score [1, 0, 2] [2, 1, 2] [1, 1, 3] =
      .ok (.val (1 / 5), .val (1 / 5), .val (1 / 5), .val (3 / 5)) ∧
    Mir.Gen.multipitch.compute_err_score [1, 1, 1] [0] [1, 2, 3] = .ok (.val 0, .val 0, .val 0, .val 0) ∧
    Mir.Gen.multipitch.compute_err_score [1, 1, 1] [2] [1, 2, 3] = .error .valueError ∧
    Mir.Gen.multipitch.compute_err_score [1] [1, 2, 3] [1, 2, 3] = .ok (.val (1 / 2), .val 0, .val 0, .val (1 / 2)) := by
  decide +kernel

/-- a target half-way between two estimate frames goes to the earlier one; outside the range: the empty frame -/
example : Mir.Gen.multipitch.resample_multipitch [1 / 8, 5 / 8] [[60, 76], [55]] [0, 1 / 4, 3 / 8, 3 / 4] =
      .ok [[], [60, 76], [60, 76], []] ∧
    Mir.Gen.multipitch.resample_multipitch [1 / 8, 5 / 8] [[60, 76]] [0] = .error .valueError ∧
    Mir.Gen.multipitch.resample_multipitch [] [[60]] [0, 1] = .ok [[], []] := by decide +kernel

/-- unequal frame counts: `zip` stops at the shorter list, one count per reference frame, no exception -/
example : ∃ tp, Mir.Gen.multipitch.compute_num_true_positives [[60, 64], [60], [67]] [[60, 76], [55]] = .ok tp ∧
    tp.length = 3 :=
  ⟨_, compute_num_true_positives_defaults _ _, by simp [natsToInts, PyMP.numTruePositives_length]⟩

/-- a valid input whose estimate lives on another time base: the translated `metrics` returns 14 finite scores -/
example : ∃ m, Mir.Gen.multipitch.metrics [0, 1 / 4, 1 / 2, 3 / 4] [[60, 64], [60], [], [67, 72]] [1 / 8, 5 / 8]
    [[60, 76], [55]] = .ok (num14 m) :=
  (gen_metrics_total _ _ _ _ none).1 (by decide +kernel)

/-- … and an invalid one (unequal lengths of times and frames) is a `ValueError` -/
example : Mir.Gen.multipitch.metrics [0, 1] [[60]] [0, 1] [[60], []] = .error .valueError :=
  (gen_metrics_total _ _ _ _ none).2 (by decide +kernel)

end Mir.C18.Gen
