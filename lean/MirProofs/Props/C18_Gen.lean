import MirGen.Multipitch
import MirProofs.Lemmas.PyMultipitch
import MirProofs.Props.C18
/-!
  C18 (regenerated) — the count-level functions of `mir_eval/multipitch.py` (`compute_num_freqs`,
  `compute_num_true_positives`, `compute_accuracy`, `compute_err_score`), `resample_multipitch`, `midi_to_chroma` and
  `metrics` AS TRANSLATED from the source on every run (`lean/MirGen/Multipitch.lean`,
  harness/translate/multipitch.py) equal the hand-written model `MirModel/Multipitch.lean`, for ALL inputs.
  Consequence: the C18 statements (E_tot = E_sub + E_miss + E_fa, every error score ≥ 0, accuracy ≤ min(P, R), nearest-
  frame resampling) are theorems about the code as translated; they are re-stated below on the translated definitions.

  Scores are `Segment.Num` in the generated code (NumPy-scalar division never raises: `nan` / `±inf` are values); the
  hand model's scores are `Rat`.  `num3` / `num4` / `num14` embed the finite ones.
-/
set_option linter.unusedSimpArgs false
namespace Mir.C18.Gen
open Mir Mir.Multipitch
open Mir.Segment (Num npDiv)
open Mir.PyMP (ok_bind error_bind)

def num3 (a : Rat × Rat × Rat) : Num × Num × Num := (.val a.1, .val a.2.1, .val a.2.2)
def num4 (e : Rat × Rat × Rat × Rat) : Num × Num × Num × Num := (.val e.1, .val e.2.1, .val e.2.2.1, .val e.2.2.2)

theorem npDiv_of_ne {a b : Rat} (h : b ≠ 0) : npDiv a b = .val (a / b) := by
  unfold npDiv; rw [if_neg h]

theorem divNp_eq (a b : Rat) : PyM.divNp a b = npDiv a b := rfl

/-! ### `compute_num_freqs`, `midi_to_chroma` -/

/-- **`compute_num_freqs` as translated = the hand model** (`numFreqs`), for every list of frames -/
theorem compute_num_freqs_eq_model (fs : Frames) :
    Mir.Gen.multipitch.compute_num_freqs fs = .ok (natsToInts (numFreqs fs)) := by
  unfold Mir.Gen.multipitch.compute_num_freqs natsToInts numFreqs
  simp only [List.map_map]
  rfl

/-- **`midi_to_chroma` as translated = the hand model** (`midiToChroma`) -/
theorem midi_to_chroma_eq_model (fs : Frames) :
    Mir.Gen.multipitch.midi_to_chroma fs = .ok (midiToChroma fs) := rfl

/-! ### `compute_accuracy` -/

/-- on the three columns of any list of rows the translated `compute_accuracy` is the hand model -/
theorem compute_accuracy_rows (rows : List Row) :
    Mir.Gen.multipitch.compute_accuracy (rows.map fun x => x.1) (rows.map fun x => x.2.1) (rows.map fun x => x.2.2) =
      .ok (num3 (computeAccuracy rows)) := by
  unfold Mir.Gen.multipitch.compute_accuracy computeAccuracy num3
  simp only [PyMP.vadd, PyMP.vsub, PyMP.bcast_eq_len, List.length_map, PyMP.zipWith_cols, PyMP.vsum, sumBy, ok_bind,
    divNp_eq, decide_eq_true_eq, gt_iff_lt, ofInt]
  have key : ∀ (T D : Int), (if 0 < D then npDiv (T : Rat) (D : Rat) else Num.val 0)
      = Num.val (if 0 < D then (T : Rat) / (D : Rat) else 0) := by
    intro T D
    by_cases h : 0 < D
    · rw [if_pos h, if_pos h, npDiv_of_ne (by exact_mod_cast (ne_of_gt h))]
    · rw [if_neg h, if_neg h]
  simp only [key]
  rfl

/-- **`compute_accuracy` as translated = the hand model** for all equally long count arrays (any length incl. empty,
    zeros, inconsistent or negative counts): precision / recall / accuracy with their zero-denominator guards -/
theorem compute_accuracy_eq_model (tp nr ne : List Int) (h1 : tp.length = nr.length) (h2 : nr.length = ne.length) :
    Mir.Gen.multipitch.compute_accuracy tp nr ne = .ok (num3 (computeAccuracy (zip3 tp nr ne))) := by
  obtain ⟨e1, e2, e3⟩ := PyMP.unzip3 tp nr ne h1 h2
  have := compute_accuracy_rows (zip3 tp nr ne)
  rwa [e1, e2, e3] at this

/-- unequal lengths, no operand of length 1 (NumPy would broadcast that one): `ValueError`, as the hand model's
    protocol handler says -/
theorem compute_accuracy_unequal (tp nr ne : List Int) (h : ¬ (tp.length = nr.length ∧ nr.length = ne.length))
    (ht : tp.length ≠ 1) (hr : nr.length ≠ 1) (he : ne.length ≠ 1) :
    Mir.Gen.multipitch.compute_accuracy tp nr ne = .error .valueError := by
  unfold Mir.Gen.multipitch.compute_accuracy
  simp only [PyMP.vadd, PyMP.vsub]
  by_cases h2 : ne.length = nr.length
  · rw [PyMP.bcast_eq_len _ h2]
    simp only [ok_bind]
    rw [PyMP.bcast_error]
    · rfl
    · simp only [List.length_zipWith, h2, Nat.min_self]; intro h3; exact h ⟨h3.symm, h2.symm⟩
    · simp only [List.length_zipWith, h2, Nat.min_self]; exact hr
    · exact ht
  · rw [PyMP.bcast_error _ h2 he hr]
    rfl

/-! ### `compute_err_score` -/

/-- Σ n_ref = 0: four zeros whatever the lengths are (the function returns before any array arithmetic) -/
theorem compute_err_score_empty_reference (tp nr ne : List Int) (h : nr.sum = 0) :
    Mir.Gen.multipitch.compute_err_score tp nr ne = .ok (.val 0, .val 0, .val 0, .val 0) := by
  unfold Mir.Gen.multipitch.compute_err_score
  simp only [PyMP.vsum, h, Int.cast_zero, decide_true, if_true]
  rfl

/-- on the three columns of any list of rows the translated `compute_err_score` is the hand model -/
theorem compute_err_score_rows (rows : List Row) :
    Mir.Gen.multipitch.compute_err_score (rows.map fun x => x.1) (rows.map fun x => x.2.1) (rows.map fun x => x.2.2) =
      .ok (num4 (computeErrScore rows)) := by
  by_cases h0 : sumBy (fun x => x.2.1) rows = 0
  · rw [compute_err_score_empty_reference _ _ _ h0, err_empty_reference (show refSum rows = 0 from h0)]
    rfl
  · have hq : ((((rows.map fun x => x.2.1).sum : Int)) : Rat) ≠ 0 := by exact_mod_cast h0
    rw [PyMP.computeErrScore_of_ne rows h0]
    unfold Mir.Gen.multipitch.compute_err_score num4
    simp only [PyMP.vsum, sumBy, decide_eq_true_eq, if_neg hq, PyMP.vsub, PyMP.stackMin_eq_len, PyMP.stackMax_eq_len,
      PyMP.bcast_eq_len, List.length_map, List.length_zipWith, Nat.min_self, PyMP.zipWith_cols, PyMP.maskFill_cols,
      ok_bind, divNp_eq, npDiv_of_ne hq, ofInt]
    rfl

/-- **`compute_err_score` as translated = the hand model** for all equally long count arrays: E_sub, E_miss, E_fa,
    E_tot from the elementwise min / max / clipped differences, and the four zeros of an all-empty reference -/
theorem compute_err_score_eq_model (tp nr ne : List Int) (h1 : tp.length = nr.length) (h2 : nr.length = ne.length) :
    Mir.Gen.multipitch.compute_err_score tp nr ne = .ok (num4 (computeErrScore (zip3 tp nr ne))) := by
  obtain ⟨e1, e2, e3⟩ := PyMP.unzip3 tp nr ne h1 h2
  have := compute_err_score_rows (zip3 tp nr ne)
  rwa [e1, e2, e3] at this

/-- Σ n_ref ≠ 0, reference and estimate counts of different lengths: `ValueError` (the stacked `np.min` is ragged) -/
theorem compute_err_score_ragged (tp nr ne : List Int) (h : nr.sum ≠ 0) (hl : nr.length ≠ ne.length) :
    Mir.Gen.multipitch.compute_err_score tp nr ne = .error .valueError := by
  unfold Mir.Gen.multipitch.compute_err_score
  have hq : ((nr.sum : Int) : Rat) ≠ 0 := by exact_mod_cast h
  simp only [PyMP.vsum, decide_eq_true_eq, if_neg hq, PyMP.stackMin_error hl]
  rfl

end Mir.C18.Gen
