import MirProofs.Lemmas.Separation
import Mathlib.Algebra.Module.Defs
import Mathlib.Tactic.FieldSimp
/-!
  C19 — BSS-eval decomposition, invariances and framewise consistency (DESIGN §5 C19).

  Level: PARTIAL.  The least-squares projection (`_project`, `_project_images`) is an abstract parameter of
  every theorem here; its numerical behaviour is covered by the harness oracle only.
-/
namespace Mir.C19
open Mir Mir.Separation

/-! ## 1. decomposition -/
section decomposition
variable {V : Type} [AddCommGroup V]

/-- The four components sum to the (zero-padded) estimate, whatever the two projections are. -/
theorem decomp_sums (sTrue projT projAll sePad : V) :
    (decomp sTrue projT projAll sePad).sTrue + (decomp sTrue projT projAll sePad).eSpat
      + (decomp sTrue projT projAll sePad).eInterf + (decomp sTrue projT projAll sePad).eArtif = sePad := by
  simp only [decomp]; abel

/-- … in particular for ANY projection operator `P`. -/
theorem decompP_sums (P : Proj V) (sTrue se : V) :
    (decompP P sTrue se).sTrue + (decompP P sTrue se).eSpat
      + (decompP P sTrue se).eInterf + (decompP P sTrue se).eArtif = se :=
  decomp_sums _ _ _ _

/-- The source criteria see the decomposition only through the two projections and the estimate
    (`s_true + e_spat = projT`, `e_interf = projAll − projT`, `e_artif = se − projAll`). -/
theorem sourceCrit_of_proj (E : V → Rat) (s pT pA se : V) :
    sourceCrit E (decomp s pT pA se) =
      (safeDb (E pT) (E (se - pT)), safeDb (E pT) (E (pA - pT)), safeDb (E pA) (E (se - pA))) := by
  have h1 : s + (pT - s) = pT := by abel
  have h2 : pA - s - (pT - s) = pA - pT := by abel
  have h3 : -s - (pT - s) - (pA - pT) + se = se - pA := by abel
  have h4 : pA - pT + (se - pA) = se - pT := by abel
  have h5 : pT + (pA - pT) = pA := by abel
  simp only [sourceCrit, decomp, h1, h2, h3, h4, h5]

/-- The image criteria: SDR and ISR compare against `s_true` itself. -/
theorem imageCrit_of_proj (E : V → Rat) (s pT pA se : V) :
    imageCrit E (decomp s pT pA se) =
      (safeDb (E s) (E (se - s)), safeDb (E s) (E (pT - s)),
       safeDb (E pT) (E (pA - pT)), safeDb (E pA) (E (se - pA))) := by
  have h1 : s + (pT - s) = pT := by abel
  have h2 : pA - s - (pT - s) = pA - pT := by abel
  have h3 : -s - (pT - s) - (pA - pT) + se = se - pA := by abel
  have h4 : pT - s + (pA - pT) + (se - pA) = se - s := by abel
  have h5 : pT + (pA - pT) = pA := by abel
  simp only [imageCrit, decomp, h1, h2, h3, h4, h5]

end decomposition

/-- The executable decomposition of a channel row (lists, pointwise, estimate zero-padded as the code does)
    sums to the padded estimate, sample by sample. -/
theorem decomp_sums_exec (sTrue projT projAll se : List Rat)
    (h1 : projT.length = sTrue.length) (h2 : projAll.length = sTrue.length) :
    ((decompRow sTrue projT projAll se).sTrue + (decompRow sTrue projT projAll se).eSpat
      + (decompRow sTrue projT projAll se).eInterf + (decompRow sTrue projT projAll se).eArtif).xs
      = (padTo sTrue.length se).take sTrue.length := by
  have hp : sTrue.length ≤ (padTo sTrue.length se).length := by
    simp [padTo]; omega
  apply List.ext_getElem
  · simp [decompRow, decomp, HAdd.hAdd, Add.add, HSub.hSub, Sub.sub, Neg.neg, h1, h2]
  · intro i hi1 hi2
    simp [decompRow, decomp, HAdd.hAdd, Add.add, HSub.hSub, Sub.sub, Neg.neg]
    have ea : ∀ a b : ℚ, a.add b = a + b := fun _ _ => rfl
    have es : ∀ a b : ℚ, a.sub b = a - b := fun _ _ => rfl
    have en : ∀ a : ℚ, a.neg = -a := fun _ => rfl
    simp only [ea, es, en]
    ring


example : (decomp (1 : ℚ) 3 7 10).eArtif = 3 ∧ (decompRow [1, 2, 0] [1/2, 1, 1] [1, 1, 1] [3, 4]).eArtif.xs = [2, 3, -1] := by
  constructor <;> decide +kernel

/-! ## 2. scale invariance -/

section scale
variable {V : Type} [AddCommGroup V] [Module ℚ V]

/-- SDR, SIR, SAR of `bss_eval_sources` are unchanged when the ESTIMATE is multiplied by `c ≠ 0`, for every
    projection that is homogeneous on that estimate and every quadratic energy. -/
theorem source_crit_scale_est (E : V → Rat) (hE : ∀ (c : ℚ) (v : V), E (c • v) = c ^ 2 * E v)
    (P : Proj V) (s se : V) (c : ℚ) (hc : c ≠ 0)
    (hT : P.onTarget (c • se) = c • P.onTarget se) (hA : P.onAll (c • se) = c • P.onAll se) :
    sourceCrit E (decompP P s (c • se)) = sourceCrit E (decompP P s se) := by
  simp only [decompP, sourceCrit_of_proj, hT, hA, ← smul_sub, hE, safeDb_scale _ _ _ hc]

omit [Module ℚ V] in
/-- … and when a REFERENCE is rescaled, provided the projections depend on the references only through their
    span (so `projT`, `projAll` are the same vectors): the source criteria do not look at `s_true`. -/
theorem source_crit_scale_ref (E : V → Rat) (s s' pT pA se : V) :
    sourceCrit E (decomp s' pT pA se) = sourceCrit E (decomp s pT pA se) := by
  simp only [sourceCrit_of_proj]

/-- For `bss_eval_images` the SIR and SAR have the same invariance … -/
theorem image_crit_sir_sar_scale_partial (E : V → Rat) (hE : ∀ (c : ℚ) (v : V), E (c • v) = c ^ 2 * E v)
    (P : Proj V) (s s' se : V) (c : ℚ) (hc : c ≠ 0)
    (hT : P.onTarget (c • se) = c • P.onTarget se) (hA : P.onAll (c • se) = c • P.onAll se) :
    (imageCrit E (decompP P s' (c • se))).2.2 = (imageCrit E (decompP P s se)).2.2 := by
  simp only [decompP, imageCrit_of_proj, hT, hA, ← smul_sub, hE, safeDb_scale _ _ _ hc]

end scale

/-- … but the full-strength claim (all of SDR/ISR/SIR/SAR invariant under rescaling the estimate) is FALSE for
    the image criteria as the code (and the published definition) computes them: SDR and ISR compare the
    estimate with `s_true` itself. -/
def image_crit_scale_full_statement : Prop :=
  ∀ (E : ℚ → Rat), (∀ c v : ℚ, E (c • v) = c ^ 2 * E v) →
    ∀ (P : Proj ℚ) (s se c : ℚ), c ≠ 0 → P.onTarget (c • se) = c • P.onTarget se →
      P.onAll (c • se) = c • P.onAll se →
      imageCrit E (decompP P s (c • se)) = imageCrit E (decompP P s se)

theorem image_crit_scale_full_statement_false : ¬ image_crit_scale_full_statement := by
  intro h
  have := h (fun x => x ^ 2) (fun c v => by simp [mul_pow]) ⟨id, id⟩ 1 2 2 (by decide) rfl rfl
  revert this
  simp only [decompP, imageCrit_of_proj, id]
  decide +kernel

example : sourceCrit (fun x : ℚ => x ^ 2) (decompP ⟨fun x => x / 2, fun x => x * 3 / 4⟩ 1 ((2 : ℚ) • (4 : ℚ)))
    = sourceCrit (fun x : ℚ => x ^ 2) (decompP ⟨fun x => x / 2, fun x => x * 3 / 4⟩ 1 4) := by
  decide +kernel

/-! ## 3. perfect estimate -/
section perfect
variable {V : Type} [AddCommGroup V]

/-- If the estimate lies in the target span (both projections fix it) the interference and artifact terms
    vanish and SDR = SIR = SAR = +inf in exact arithmetic ("very high" in binary64). -/
theorem perfect_estimate_sources (E : V → Rat) (hE0 : E 0 = 0) (P : Proj V) (s se : V)
    (hT : P.onTarget se = se) (hA : P.onAll se = se) :
    sourceCrit E (decompP P s se) = (.posInf, .posInf, .posInf) := by
  simp [decompP, sourceCrit_of_proj, hT, hA, hE0, safeDb]

theorem perfect_estimate_images (E : V → Rat) (hE0 : E 0 = 0) (P : Proj V) (s : V)
    (hT : P.onTarget s = s) (hA : P.onAll s = s) :
    imageCrit E (decompP P s s) = (.posInf, .posInf, .posInf, .posInf) := by
  simp [decompP, imageCrit_of_proj, hT, hA, hE0, safeDb]

end perfect

example : sourceCrit (fun x : ℚ => x ^ 2) (decompP ⟨id, id⟩ 3 5) = (.posInf, .posInf, .posInf) :=
  perfect_estimate_sources _ (by simp) _ _ _ rfl rfl

/-! ## 4. the permutation -/

/-- `perms` (the model of `itertools.permutations`) lists exactly the permutations. -/
theorem perms_are_the_permutations (xs p : List Nat) : p ∈ perms xs ↔ p.Perm xs := mem_perms_iff xs p

/-- The returned `perm` is a permutation of `0 … nsrc−1`. -/
theorem bestPerm_is_perm (n : Nat) (S : Nat → Nat → Rat) : (bestPerm n S).Perm (List.range n) :=
  (mem_perms_iff _ _).1 (bestPerm_mem n S)

/-- No permutation has a larger mean SIR. -/
theorem bestPerm_max (n : Nat) (S : Nat → Nat → Rat) (q : List Nat) (hq : q.Perm (List.range n)) :
    meanSir n S q ≤ meanSir n S (bestPerm n S) := bestPerm_mean_max n S q hq

/-- Among the maximisers it is the first in `itertools.permutations` order (`np.argmax`). -/
theorem bestPerm_is_first_argmax (n : Nat) (S : Nat → Nat → Rat) :
    ∃ pre post, perms (List.range n) = pre ++ bestPerm n S :: post ∧
      (∀ q ∈ pre, meanSir n S q < meanSir n S (bestPerm n S)) ∧
      (∀ q ∈ post, meanSir n S q ≤ meanSir n S (bestPerm n S)) := bestPerm_first n S

/-- If the identity strictly dominates every other permutation (the situation of a perfect estimate) it is
    returned. -/
theorem bestPerm_identity_of_dominant (n : Nat) (S : Nat → Nat → Rat)
    (h : ∀ q, q.Perm (List.range n) → q ≠ List.range n → meanSir n S q < meanSir n S (List.range n)) :
    bestPerm n S = List.range n := by
  by_contra hne
  have h1 := h _ (bestPerm_is_perm n S) hne
  have h2 := bestPerm_max n S (List.range n) (List.Perm.refl _)
  exact absurd h1 (not_lt.2 h2)

/-- Reordering the estimates by a bijection `τ` of `0 … n−1` (new estimate `e` is old estimate `τ e`)
    permutes the result accordingly, whenever the maximiser of the mean SIR is unique (tie-free matrix). -/
theorem bestPerm_equivariant (n : Nat) (S : Nat → Nat → Rat) (τ τinv : Nat → Nat)
    (h1 : ∀ e < n, τ e < n) (h2 : ∀ e < n, τinv e < n)
    (h3 : ∀ e < n, τ (τinv e) = e) (h4 : ∀ e < n, τinv (τ e) = e)
    (huniq : ∀ p, p.Perm (List.range n) → meanSir n S p = meanSir n S (bestPerm n S) → p = bestPerm n S) :
    (bestPerm n (fun e t => S (τ e) t)).map τ = bestPerm n S := by
  set S' : Nat → Nat → Rat := fun e t => S (τ e) t with hS'
  have hmapτ : ∀ p : List Nat, p.Perm (List.range n) → (p.map τ).Perm (List.range n) := fun p hp =>
    (hp.map τ).trans (map_range_perm n τ τinv h1 h2 h3 h4)
  have hmapi : ∀ p : List Nat, p.Perm (List.range n) → (p.map τinv).Perm (List.range n) := fun p hp =>
    (hp.map τinv).trans (map_range_perm n τinv τ h2 h1 h4 h3)
  have hmean : ∀ p : List Nat, meanSir n S (p.map τ) = meanSir n S' p := fun p => by
    simp only [meanSir, score, scoreFrom_map, hS']
  have hq := bestPerm_is_perm n S'
  have hb := bestPerm_is_perm n S
  -- r = τ⁻¹ ∘ popt is a candidate for the relabelled problem with the original optimum as its score
  have hr : ((bestPerm n S).map τinv).map τ = bestPerm n S := by
    rw [List.map_map]
    conv_rhs => rw [← List.map_id (bestPerm n S)]
    apply List.map_congr_left
    intro e he
    have : e ∈ List.range n := hb.subset he
    exact h3 e (List.mem_range.1 this)
  have hle1 : meanSir n S (bestPerm n S) ≤ meanSir n S ((bestPerm n S').map τ) := by
    have := bestPerm_max n S' _ (hmapi _ hb)
    rw [← hmean, hr, ← hmean] at this
    exact this
  have hle2 := bestPerm_max n S _ (hmapτ _ hq)
  exact huniq _ (hmapτ _ hq) (le_antisymm hle2 hle1)

/-- The outputs of the non-framewise functions: `nm` criterion vectors and the permutation. -/
theorem selectOutputs_arity (nm sirIdx nsrc : Nat) (C : Nat → Nat → Nat → Rat) (cp : Bool) :
    (selectOutputs nm sirIdx nsrc C cp).length = nm + 1 := by
  simp [selectOutputs]

/-- With `compute_permutation=False` the permutation is the identity. -/
theorem selectOutputs_no_perm (nm sirIdx nsrc : Nat) (C : Nat → Nat → Nat → Rat) :
    (selectOutputs nm sirIdx nsrc C false).getLast? = some ((List.range nsrc).map fun (e : Nat) => (e : Rat)) := by
  simp [selectOutputs]

example : bestPerm 2 (fun e t => if e = t then 0 else 5) = [1, 0] ∧
    bestPerm 3 (fun _ _ => 1) = [0, 1, 2] ∧
    perms [0, 1, 2] = [[0, 1, 2], [0, 2, 1], [1, 0, 2], [1, 2, 0], [2, 0, 1], [2, 1, 0]] := by
  refine ⟨by decide +kernel, by decide +kernel, by decide +kernel⟩


/-- non-vacuity of `bestPerm_equivariant`: swapping two estimates of a tie-free 2×2 SIR matrix -/
example : (∀ e < 2, (fun e => 1 - e) e < 2) ∧
    (bestPerm 2 (fun e t => (if (1 - e) = t then (7 : Rat) else 2))).map (fun e => 1 - e)
      = bestPerm 2 (fun e t => if e = t then (7 : Rat) else 2) := by
  refine ⟨by decide, by decide +kernel⟩

/-! ## 5. framewise windows -/

/-- `nwin = ⌊(nsampl − window + hop) / hop⌋`. -/
theorem nwin_spec (nsampl window hop : Int) (hh : 0 < hop) :
    ∃ k, nwin nsampl window hop = .ok k ∧ k * hop ≤ nsampl - window + hop ∧
      nsampl - window + hop < (k + 1) * hop := by
  refine ⟨(nsampl - window + hop) / hop, ?_, Int.ediv_mul_le _ (ne_of_gt hh),
    Int.lt_ediv_add_one_mul_self _ hh⟩
  unfold nwin
  rw [if_neg (ne_of_gt hh), Int.fdiv_eq_ediv_of_nonneg _ (le_of_lt hh)]
  rfl

/-- `hop = 0` is a `ZeroDivisionError`. -/
theorem nwin_hop_zero (nsampl window : Int) : nwin nsampl window 0 = .error .zeroDivision := rfl

/-- Window `k` is `[k·hop, k·hop + window)`, there are `nwin` of them … -/
theorem windows_spec (n window hop : Nat) :
    (windows n window hop).length = n ∧
      ∀ k, k < n → (windows n window hop)[k]? = some (k * hop, k * hop + window) := by
  refine ⟨by simp [windows], fun k hk => ?_⟩
  simp [windows, hk]

/-- … every one of them lies inside the signal (so it has exactly `window` samples), and one more would not. -/
theorem windows_inside (nsampl window hop nw : Int) (hh : 0 < hop)
    (hn : nwin nsampl window hop = .ok nw) :
    (∀ k : Int, 0 ≤ k → k < nw → k * hop + window ≤ nsampl) ∧ nsampl < nw * hop + window := by
  obtain ⟨k', hk', hlo, hhi⟩ := nwin_spec nsampl window hop hh
  rw [hk'] at hn
  have hkk : k' = nw := by injection hn
  subst hkk
  refine ⟨fun k _ hk => ?_, by linarith⟩
  have : (k + 1) * hop ≤ k' * hop := Int.mul_le_mul_of_nonneg_right (by omega) (le_of_lt hh)
  linarith

/-- Fewer than two windows: the whole-signal result with a trailing axis of length 1. -/
theorem framewise_fallback (nOut : Nat) (nanOut : Nat → Bool) (ev : Arr → Arr → Bool → Nat → Nat → Rat)
    (ref est : Arr) (window hop : Int) (cp : Bool) (nw : Int)
    (hn : nwin ((ref.shape.drop 1).headD 0) window hop = .ok nw) (h2 : nw < 2) :
    ∃ ms, framewiseBody nOut nanOut ev ref est window hop cp = .ok (.mats ms) ∧ ms.length = nOut ∧
      ∀ o j, o < nOut → j < ref.shape.headD 0 →
        (ms[o]?).bind (·[j]?) = some [.val (ev ref est cp o j)] := by
  refine ⟨(List.range nOut).map fun o => (List.range (ref.shape.headD 0)).map fun j =>
    [Cell.val (ev ref est cp o j)], ?_, by simp, ?_⟩
  · unfold framewiseBody
    simp only [bind, Except.bind, hn, pure, Except.pure, h2, if_true]
  · intro o j ho hj
    have hj' : j < ref.shape.head?.getD 0 := by simpa using hj
    simp [ho, hj']

/-- Two or more windows: every cell of every output is the non-framewise result on that window, or the
    silent-window filler. -/
theorem framewise_windows (nOut : Nat) (nanOut : Nat → Bool) (ev : Arr → Arr → Bool → Nat → Nat → Rat)
    (ref est : Arr) (window hop : Int) (cp : Bool) (nw : Int)
    (hn : nwin ((ref.shape.drop 1).headD 0) window hop = .ok nw) (h2 : 2 ≤ nw) :
    ∃ ms, framewiseBody nOut nanOut ev ref est window hop cp = .ok (.mats ms) ∧ ms.length = nOut ∧
      ∀ o j k, o < nOut → j < ref.shape.headD 0 → k < nw.toNat →
        cellAt ms o j k = some (windowCell nanOut ev ref est cp
          (k * hop.toNat) (k * hop.toNat + window.toNat) o j) := by
  have h2' : ¬ nw < 2 := not_lt.2 h2
  refine ⟨(List.range nOut).map fun o => (List.range (ref.shape.headD 0)).map fun j =>
    (windows nw.toNat window.toNat hop.toNat).map fun w => windowCell nanOut ev ref est cp w.1 w.2 o j,
    ?_, by simp, ?_⟩
  · unfold framewiseBody
    simp only [bind, Except.bind, hn, pure, Except.pure, h2', if_false]
    rfl
  · intro o j k ho hj hk
    have hj' : j < ref.shape.head?.getD 0 := by simpa using hj
    simp [cellAt, windows, ho, hj', hk]


example : nwin 10 4 2 = .ok 4 ∧ windows 4 4 2 = [(0, 4), (2, 6), (4, 8), (6, 10)] ∧ nwin 5 4 2 = .ok 1 := by
  refine ⟨rfl, by decide +kernel, rfl⟩

/-! ## 6. framewise consistency, silent windows -/

/-- `bss_eval_sources_framewise` on a validated non-empty input with ≥ 2 windows: every cell of all FOUR outputs
    is the `bss_eval_sources` value of that window, or NaN when the window has a silent source. -/
theorem sources_framewise_consistent (ev : Arr → Arr → Bool → Nat → Nat → Rat) (ref est : Arr)
    (window hop : Int) (cp : Bool) (nw : Int)
    (hv : validate (promote2 ref) (promote2 est) = .ok ())
    (hne : ¬ ((promote2 ref).size = 0 ∨ (promote2 est).size = 0))
    (hn : nwin ((((promote2 ref).shape.drop 1).headD 0 : Nat)) window hop = .ok nw) (h2 : 2 ≤ nw) :
    ∃ ms, sourcesFramewise ev ref est window hop cp = .ok (.mats ms) ∧ ms.length = 4 ∧
      ∀ o j k, o < 4 → j < (promote2 ref).shape.headD 0 → k < nw.toNat →
        cellAt ms o j k = some (windowCell (fun _ => true) ev (promote2 ref) (promote2 est) cp
          (k * hop.toNat) (k * hop.toNat + window.toNat) o j) := by
  obtain ⟨ms, h, hl, hc⟩ := framewise_windows 4 (fun _ => true) ev (promote2 ref) (promote2 est) window hop cp nw hn h2
  refine ⟨ms, ?_, hl, hc⟩
  unfold sourcesFramewise
  simp only [bind, Except.bind, hv, hne, if_false]
  exact h

/-- NaN in EVERY metric (and in `perm`) of a silent window — sources. -/
theorem sources_framewise_silent_nan (ev : Arr → Arr → Bool → Nat → Nat → Rat) (ref est : Arr)
    (window hop : Int) (cp : Bool) (nw : Int)
    (hv : validate (promote2 ref) (promote2 est) = .ok ())
    (hne : ¬ ((promote2 ref).size = 0 ∨ (promote2 est).size = 0))
    (hn : nwin ((((promote2 ref).shape.drop 1).headD 0 : Nat)) window hop = .ok nw) (h2 : 2 ≤ nw) :
    ∃ ms, sourcesFramewise ev ref est window hop cp = .ok (.mats ms) ∧
      ∀ o j k, o < 4 → j < (promote2 ref).shape.headD 0 → k < nw.toNat →
        (anySourceSilent (sliceArr (promote2 ref) (k * hop.toNat) (k * hop.toNat + window.toNat)) ||
          anySourceSilent (sliceArr (promote2 est) (k * hop.toNat) (k * hop.toNat + window.toNat))) = true →
        cellAt ms o j k = some .nan := by
  obtain ⟨ms, h, -, hc⟩ := sources_framewise_consistent ev ref est window hop cp nw hv hne hn h2
  refine ⟨ms, h, fun o j k ho hj hk hs => ?_⟩
  rw [hc o j k ho hj hk]
  simp only [windowCell, hs, if_true]

/-- `bss_eval_images_framewise`: the same for all FIVE outputs (sdr, isr, sir, sar, perm). -/
theorem images_framewise_consistent (ev : Arr → Arr → Bool → Nat → Nat → Rat) (ref est : Arr)
    (window hop : Int) (cp : Bool) (nw : Int)
    (hv : validate (atleast3d ref) (atleast3d est) = .ok ())
    (hne : ¬ ((atleast3d ref).size = 0 ∨ (atleast3d est).size = 0))
    (hn : nwin ((((atleast3d ref).shape.drop 1).headD 0 : Nat)) window hop = .ok nw) (h2 : 2 ≤ nw) :
    ∃ ms, imagesFramewise ev ref est window hop cp = .ok (.mats ms) ∧ ms.length = 5 ∧
      ∀ o j k, o < 5 → j < (atleast3d ref).shape.headD 0 → k < nw.toNat →
        cellAt ms o j k = some (windowCell (fun _ => true) ev (atleast3d ref) (atleast3d est) cp
          (k * hop.toNat) (k * hop.toNat + window.toNat) o j) := by
  obtain ⟨ms, h, hl, hc⟩ := framewise_windows 5 (fun _ => true) ev (atleast3d ref) (atleast3d est) window hop cp nw hn h2
  refine ⟨ms, ?_, hl, hc⟩
  unfold imagesFramewise
  simp only [bind, Except.bind, hv, hne, if_false]
  exact h

/-- Full-strength claim for images: NaN in every one of the five outputs of a silent window, for every input on
    which the function returns its window matrices. -/
def images_framewise_silent_nan_full_statement : Prop :=
  ∀ (ev : Arr → Arr → Bool → Nat → Nat → Rat) (ref est : Arr) (window hop : Int) (cp : Bool) (nw : Int)
    (ms : List (List (List Cell))),
    imagesFramewise ev ref est window hop cp = .ok (.mats ms) →
    nwin ((((atleast3d ref).shape.drop 1).headD 0 : Nat)) window hop = .ok nw → 2 ≤ nw →
    ∀ o j k, o < 5 → j < (atleast3d ref).shape.headD 0 → k < nw.toNat →
      (anySourceSilent (sliceArr (atleast3d ref) (k * hop.toNat) (k * hop.toNat + window.toNat)) ||
        anySourceSilent (sliceArr (atleast3d est) (k * hop.toNat) (k * hop.toNat + window.toNat))) = true →
      cellAt ms o j k = some .nan

/-- It HOLDS of the repaired code (it was false before `fix:` b910d54, when `isr[:, k]` was never written). -/
theorem images_framewise_silent_nan : images_framewise_silent_nan_full_statement := by
  intro ev ref est window hop cp nw ms h hn h2 o j k ho hj hk hs
  -- the function returned matrices, so validation passed and the input is not empty
  have hv : validate (atleast3d ref) (atleast3d est) = .ok () := by
    rcases hval : validate (atleast3d ref) (atleast3d est) with e | u
    · unfold imagesFramewise at h
      simp only [bind, Except.bind, hval] at h
      exact absurd h (by simp)
    · rfl
  have hne : ¬ ((atleast3d ref).size = 0 ∨ (atleast3d est).size = 0) := by
    intro hem
    unfold imagesFramewise at h
    simp only [bind, Except.bind, hv, hem, if_true, pure, Except.pure] at h
    exact absurd h (by simp)
  obtain ⟨ms', h', -, hc⟩ := images_framewise_consistent ev ref est window hop cp nw hv hne hn h2
  rw [h'] at h
  injection h with h
  injection h with h
  subst h
  rw [hc o j k ho hj hk]
  simp only [windowCell, hs, if_true]

/-- non-vacuity of `images_framewise_silent_nan` (the former counter-example): one source `1 1 0 0`,
    window = hop = 2 — the second window is silent and all five outputs, `isr` included, hold NaN there -/
example : validate (atleast3d ⟨[1, 4], [[[1], [1], [0], [0]]]⟩) (atleast3d ⟨[1, 4], [[[1], [1], [0], [0]]]⟩) = .ok () ∧
    nwin 4 2 2 = .ok 2 ∧
    windowCell (fun _ => true) (fun _ _ _ _ _ => 0) (atleast3d ⟨[1, 4], [[[1], [1], [0], [0]]]⟩)
      (atleast3d ⟨[1, 4], [[[1], [1], [0], [0]]]⟩) false 2 4 1 0 = Cell.nan ∧
    windowCell (fun _ => true) (fun _ _ _ _ _ => 0) (atleast3d ⟨[1, 4], [[[1], [1], [0], [0]]]⟩)
      (atleast3d ⟨[1, 4], [[[1], [1], [0], [0]]]⟩) false 0 2 1 0 = Cell.val 0 := by
  refine ⟨by decide +kernel, by decide +kernel, by decide +kernel, by decide +kernel⟩

/-- non-vacuity: the hypotheses of the framewise theorems hold for a 1-source signal `1 1 0 0 2 3`,
    window = hop = 2 (three windows, the middle one silent) -/
example : validate (promote2 ⟨[6], [[[1], [1], [0], [0], [2], [3]]]⟩) (promote2 ⟨[6], [[[1], [1], [0], [0], [2], [3]]]⟩) = .ok () ∧
    nwin 6 2 2 = .ok 3 ∧
    anySourceSilent (sliceArr (promote2 ⟨[6], [[[1], [1], [0], [0], [2], [3]]]⟩) 2 4) = true ∧
    anySourceSilent (sliceArr (promote2 ⟨[6], [[[1], [1], [0], [0], [2], [3]]]⟩) 4 6) = false := by
  refine ⟨by decide +kernel, by decide +kernel, by decide +kernel, by decide +kernel⟩

/-! ## 7. arity -/

theorem framewiseBody_arity (nOut : Nat) (nanOut : Nat → Bool) (ev : Arr → Arr → Bool → Nat → Nat → Rat)
    (ref est : Arr) (window hop : Int) (cp : Bool) (out : Out)
    (h : framewiseBody nOut nanOut ev ref est window hop cp = .ok out) : out.arity = nOut := by
  rcases hn : nwin ((((ref.shape.drop 1).headD 0 : Nat))) window hop with e | nw
  · unfold framewiseBody at h
    simp only [bind, Except.bind, hn] at h
    exact absurd h (by simp)
  · by_cases h2 : nw < 2
    · obtain ⟨ms, heq, hl, -⟩ := framewise_fallback nOut nanOut ev ref est window hop cp nw hn h2
      rw [heq] at h
      injection h with h; subst h
      simpa [Out.arity] using hl
    · obtain ⟨ms, heq, hl, -⟩ := framewise_windows nOut nanOut ev ref est window hop cp nw hn (not_lt.1 h2)
      rw [heq] at h
      injection h with h; subst h
      simpa [Out.arity] using hl

/-- `bss_eval_sources` returns 4 arrays whenever it returns (empty input included). -/
theorem sources_arity (C : Nat → Nat → Nat → Rat) (ref est : Arr) (cp : Bool) (out : Out)
    (h : bssEvalSources C ref est cp = .ok out) : out.arity = 4 := by
  unfold bssEvalSources at h
  simp only [bind, Except.bind, pure, Except.pure] at h
  split at h
  · exact absurd h (by simp)
  · split at h <;> (injection h with h; subst h; simp [Out.arity, selectOutputs_arity])

/-- `bss_eval_images` returns 5 arrays whenever it returns (empty input included). -/
theorem images_arity (C : Nat → Nat → Nat → Rat) (ref est : Arr) (cp : Bool) (out : Out)
    (h : bssEvalImages C ref est cp = .ok out) : out.arity = 5 := by
  unfold bssEvalImages at h
  simp only [bind, Except.bind, pure, Except.pure] at h
  split at h
  · exact absurd h (by simp)
  · split at h <;> (injection h with h; subst h; simp [Out.arity, selectOutputs_arity])

/-- `bss_eval_sources_framewise` returns 4 arrays whenever it returns (empty input and fall-back included). -/
theorem sources_framewise_arity (ev : Arr → Arr → Bool → Nat → Nat → Rat) (ref est : Arr)
    (window hop : Int) (cp : Bool) (out : Out)
    (h : sourcesFramewise ev ref est window hop cp = .ok out) : out.arity = 4 := by
  unfold sourcesFramewise at h
  simp only [bind, Except.bind, pure, Except.pure] at h
  split at h
  · exact absurd h (by simp)
  · split at h
    · injection h with h; subst h; rfl
    · exact framewiseBody_arity _ _ _ _ _ _ _ _ _ h

/-- Full-strength claim: `bss_eval_images_framewise` returns the documented 5 arrays for every input. -/
def images_framewise_arity_full_statement : Prop :=
  ∀ (ev : Arr → Arr → Bool → Nat → Nat → Rat) (ref est : Arr) (window hop : Int) (cp : Bool) (out : Out),
    imagesFramewise ev ref est window hop cp = .ok out → out.arity = 5

/-- It HOLDS of the repaired code, empty input and fall-back included (it was false before `fix:` 1910533). -/
theorem images_framewise_arity : images_framewise_arity_full_statement := by
  intro ev ref est window hop cp out h
  unfold imagesFramewise at h
  simp only [bind, Except.bind, pure, Except.pure] at h
  split at h
  · exact absurd h (by simp)
  · split at h
    · injection h with h; subst h; rfl
    · exact framewiseBody_arity _ _ _ _ _ _ _ _ _ h

example : (bssEvalImages (fun _ _ _ => 0) ⟨[0], [[]]⟩ ⟨[0], [[]]⟩ true).map Out.arity = .ok 5 ∧
    (sourcesFramewise (fun _ _ _ _ _ => 0) ⟨[0], [[]]⟩ ⟨[0], [[]]⟩ 2 2 true).map Out.arity = .ok 4 ∧
    (imagesFramewise (fun _ _ _ _ _ => 0) ⟨[1, 4], [[[1], [1], [0], [1]]]⟩ ⟨[1, 4], [[[1], [1], [0], [1]]]⟩ 2 2 true).map Out.arity = .ok 5 ∧
    (imagesFramewise (fun _ _ _ _ _ => 0) ⟨[0], [[]]⟩ ⟨[0], [[]]⟩ 2 2 false).map Out.arity = .ok 5 := by
  refine ⟨by decide +kernel, by decide +kernel, by decide +kernel, by decide +kernel⟩

end Mir.C19
