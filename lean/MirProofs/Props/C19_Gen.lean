import MirGen.SepCrit
import MirProofs.Props.C19
import MirProofs.Props.C14_GenVal
/-!
  C19 (generated definitions) — the functions of `mir_eval/separation.py` that `harness/translate/sepcrit.py` regenerates
  from the source on every run (`lean/MirGen/SepCrit.lean`, `Mir.Gen.separation.*`) equal the hand-written model
  (`MirModel/Separation.lean`) for ALL inputs, and the C19 headline statements hold of the translated definitions.
-/
namespace Mir.C19.Gen
open Mir Mir.Separation Mir.PySep

/-! ## 1. criteria -/

/-- `_safe_db` as translated = the model's `safeDb`, for all numerators and denominators (never raises). -/
theorem safe_db_eq_model (num den : Rat) : Gen.separation._safe_db num den = .ok (safeDb num den) := by
  unfold Gen.separation._safe_db safeDb
  by_cases h : den = 0
  · simp [h, npInf]; rfl
  · simp [h, PyM.divNp, Segment.npDiv, tenLog10]; rfl

/-- `_bss_source_crit` as translated = the model's `sourceCrit` with `E = np.sum(·**2)`, for every ndarray type. -/
theorem source_crit_eq_model {V : Type} [Nd V] (sTrue eSpat eInterf eArtif : V) :
    Gen.separation._bss_source_crit sTrue eSpat eInterf eArtif
      = .ok (sourceCrit Nd.sumsq ⟨sTrue, eSpat, eInterf, eArtif⟩) := by
  simp only [Gen.separation._bss_source_crit, safe_db_eq_model]; rfl

/-- `_bss_image_crit` as translated = the model's `imageCrit`. -/
theorem image_crit_eq_model {V : Type} [Nd V] (sTrue eSpat eInterf eArtif : V) :
    Gen.separation._bss_image_crit sTrue eSpat eInterf eArtif
      = .ok (imageCrit Nd.sumsq ⟨sTrue, eSpat, eInterf, eArtif⟩) := by
  simp only [Gen.separation._bss_image_crit, safe_db_eq_model]; rfl

/-! ## 2. the decomposition arithmetic of `_bss_decomp_mtifilt` (`_project` is an extern parameter) -/

theorem ok_bind {α β : Type} (a : α) (f : α → Py β) : (Except.ok a >>= f) = f a := rfl
theorem error_bind {α β : Type} (e : PyErr) (f : α → Py β) : ((Except.error e : Py α) >>= f) = Except.error e := rfl

theorem vsub_ok {a b : List Rat} (h : a.length = b.length) :
    PyMel.vsub a b = .ok (List.zipWith (· - ·) a b) := by
  simp [PyMel.vsub, PyMel.bcast, h]

theorem vadd_ok {a b : List Rat} (h : a.length = b.length) :
    PyMel.vadd a b = .ok (List.zipWith (· + ·) a b) := by
  simp [PyMel.vadd, PyMel.bcast, h]

theorem zeros_ok {flen : Nat} (hf : 1 ≤ flen) : PySep.zeros ((flen : Int) - 1) = .ok (List.replicate (flen - 1) 0) := by
  have h1 : ¬ ((flen : Int) - 1 < 0) := by omega
  have h2 : ((flen : Int) - 1).toNat = flen - 1 := by omega
  simp [PySep.zeros, h1, h2]

theorem zipWith_add_zeros (x : List Rat) : List.zipWith (· + ·) x (List.replicate x.length (0 : Rat)) = x := by
  induction x with
  | nil => rfl
  | cons a t ih => simp [List.replicate_succ, ih]

theorem zipWith_add_pad (a d est : List Rat) (h : a.length = est.length) :
    List.zipWith (· + ·) (a ++ d) (est ++ List.replicate d.length 0) = List.zipWith (· + ·) a est ++ d := by
  rw [List.zipWith_append h, zipWith_add_zeros]

/-- `x[:n] += est` for `n = len(est) <= len(x)` adds the zero-padded estimate. -/
theorem addPrefix_ok (x est : List Rat) (h : est.length ≤ x.length) :
    PySep.addPrefix x est.length est = .ok (List.zipWith (· + ·) x (padTo x.length est)) := by
  have hl : (x.take est.length).length = est.length := by simp [h]
  have hd : (x.drop est.length).length = x.length - est.length := by simp
  have key := zipWith_add_pad (x.take est.length) (x.drop est.length) est hl
  rw [List.take_append_drop, hd] at key
  unfold PySep.addPrefix
  rw [vadd_ok hl]
  have hz : (List.zipWith (· + ·) (x.take est.length) est).length = (x.take est.length).length := by simp [hl]
  simp only [ok_bind, padTo, hz, ne_eq, not_true_eq_false, if_false, key]
  rfl

/-- `_bss_decomp_mtifilt` as translated = the model's `decompRow` on the two results of `_project`, whatever `_project`
    is, whenever those results have the length `nsampl + flen - 1` of the padded target (what `_project` returns). -/
theorem decomp_mtifilt_eq_model (refs : List (List Rat)) (est r pT pA : List Rat) (j flen : Nat)
    (proj : List (List Rat) → List Rat → Nat → Py (List Rat))
    (hj : refs[j]? = some r) (hf : 1 ≤ flen)
    (hT : proj [r] est flen = .ok pT) (hA : proj refs est flen = .ok pA)
    (hlT : pT.length = r.length + (flen - 1)) (hlA : pA.length = r.length + (flen - 1))
    (hle : est.length ≤ r.length + (flen - 1)) :
    Gen.separation._bss_decomp_mtifilt refs est j flen proj =
      .ok ((decompRow (r ++ List.replicate (flen - 1) 0) pT pA est).sTrue.xs,
           (decompRow (r ++ List.replicate (flen - 1) 0) pT pA est).eSpat.xs,
           (decompRow (r ++ List.replicate (flen - 1) 0) pT pA est).eInterf.xs,
           (decompRow (r ++ List.replicate (flen - 1) 0) pT pA est).eArtif.xs) := by
  have hs : (r ++ List.replicate (flen - 1) (0 : Rat)).length = r.length + (flen - 1) := by simp
  generalize hS : r ++ List.replicate (flen - 1) (0 : Rat) = sT at hs
  have hrow : PySep.row refs j = .ok r := by simp [PySep.row, hj]
  have h1 : pT.length = sT.length := by omega
  have h2 : (List.zipWith (· - ·) pA sT).length = (List.zipWith (· - ·) pT sT).length := by simp; omega
  have h2' : pA.length = sT.length := by omega
  have h3 : (PySep.vneg sT).length = (List.zipWith (· - ·) pT sT).length := by simp [PySep.vneg]; omega
  have h4 : (List.zipWith (· - ·) (PySep.vneg sT) (List.zipWith (· - ·) pT sT)).length
      = (List.zipWith (· - ·) (List.zipWith (· - ·) pA sT) (List.zipWith (· - ·) pT sT)).length := by
    simp [PySep.vneg]; omega
  have h5 : est.length ≤ (List.zipWith (· - ·) (List.zipWith (· - ·) (PySep.vneg sT) (List.zipWith (· - ·) pT sT))
      (List.zipWith (· - ·) (List.zipWith (· - ·) pA sT) (List.zipWith (· - ·) pT sT))).length := by
    simp [PySep.vneg]; omega
  simp only [Gen.separation._bss_decomp_mtifilt, hrow, zeros_ok hf, ok_bind, hS, hT, hA, vsub_ok h1, vsub_ok h2',
    vsub_ok h2, vsub_ok h3, vsub_ok h4, PyM.len, addPrefix_ok _ _ h5]
  have hlen : (List.zipWith (· - ·) (List.zipWith (· - ·) (PySep.vneg sT) (List.zipWith (· - ·) pT sT))
      (List.zipWith (· - ·) (List.zipWith (· - ·) pA sT) (List.zipWith (· - ·) pT sT))).length = sT.length := by
    simp [PySep.vneg]; omega
  rw [hlen]
  rfl

/-- HEADLINE (exact decomposition identity, on the translated definition): whatever `_project` returns (of the right
    length), the four components `_bss_decomp_mtifilt` returns sum, sample by sample, to the zero-padded estimate. -/
theorem gen_decomp_components_sum (refs : List (List Rat)) (est r pT pA : List Rat) (j flen : Nat)
    (proj : List (List Rat) → List Rat → Nat → Py (List Rat))
    (hj : refs[j]? = some r) (hf : 1 ≤ flen)
    (hT : proj [r] est flen = .ok pT) (hA : proj refs est flen = .ok pA)
    (hlT : pT.length = r.length + (flen - 1)) (hlA : pA.length = r.length + (flen - 1))
    (hle : est.length ≤ r.length + (flen - 1)) :
    ∃ sTrue eSpat eInterf eArtif, Gen.separation._bss_decomp_mtifilt refs est j flen proj
        = .ok (sTrue, eSpat, eInterf, eArtif) ∧
      sTrue = r ++ List.replicate (flen - 1) 0 ∧
      ((⟨sTrue⟩ + ⟨eSpat⟩ + ⟨eInterf⟩ + ⟨eArtif⟩ : Sig)).xs = padTo (r.length + (flen - 1)) est := by
  refine ⟨_, _, _, _, decomp_mtifilt_eq_model refs est r pT pA j flen proj hj hf hT hA hlT hlA hle, rfl, ?_⟩
  have hs : (r ++ List.replicate (flen - 1) (0 : Rat)).length = r.length + (flen - 1) := by simp
  have := decomp_sums_exec (r ++ List.replicate (flen - 1) 0) pT pA est (by omega) (by omega)
  rw [hs] at this
  rw [this]
  apply List.take_of_length_le
  simp [padTo]; omega

/-- the exceptions of the arithmetic: a target index out of range is an `IndexError` … -/
theorem decomp_mtifilt_index_error (refs : List (List Rat)) (est : List Rat) (j flen : Nat)
    (proj : List (List Rat) → List Rat → Nat → Py (List Rat)) (hj : refs.length ≤ j) :
    Gen.separation._bss_decomp_mtifilt refs est j flen proj = .error .indexError := by
  have : refs[j]? = none := by simp [hj]
  simp [Gen.separation._bss_decomp_mtifilt, PySep.row, this, error_bind]

/-- … and `flen = 0` is the `ValueError` of `np.zeros(-1)`. -/
theorem decomp_mtifilt_flen_zero (refs : List (List Rat)) (est : List Rat) (j : Nat)
    (proj : List (List Rat) → List Rat → Nat → Py (List Rat)) (hj : j < refs.length) :
    Gen.separation._bss_decomp_mtifilt refs est j 0 proj = .error .valueError := by
  have : refs[j]? = some refs[j] := by simp [hj]
  simp [Gen.separation._bss_decomp_mtifilt, PySep.row, this, PySep.zeros, ok_bind] <;> try rfl

/-! ## 3. silence, validation -/

/-- `_any_source_silent` as translated: the model's `anySourceSilent` on an array with at least two axes, the
    `AxisError` (a `ValueError`) of `np.all(., axis=1)` otherwise. -/
theorem any_source_silent_eq_model (a : Separation.Arr) :
    Gen.separation._any_source_silent a
      = if a.shape.length < 2 then .error .valueError else .ok (anySourceSilent a) := by
  unfold Gen.separation._any_source_silent
  by_cases h : a.shape.length < 2
  · have : min a.shape.length 2 < 2 := by omega
    simp [PySep.allAxis1, PySep.sumTrailingEqZero, h, this, error_bind]
  · have : ¬ min a.shape.length 2 < 2 := by omega
    simp only [PySep.allAxis1, PySep.sumTrailingEqZero, h, this, if_false, ok_bind]
    simp [PySep.anyB, anySourceSilent, List.any_map, List.all_map, Function.comp_def]
    rfl

theorem prodL_eq_foldl (l : List Nat) (k : Nat) : l.foldl (· * ·) k = k * Mir.Arr.prodL l := by
  induction l generalizing k with
  | nil => simp [Mir.Arr.prodL]
  | cons a t ih => simp [Mir.Arr.prodL, ih, Nat.mul_assoc]

theorem srcOf_size (a : Separation.Arr) : (PySep.srcOf a).size = a.size := by
  simp [PySep.srcOf, Mir.Validate.Src.size, Separation.Arr.size, prodL_eq_foldl]

/-- the validator GENERATED from the source (`Mir.GenV.separation.validate`, part `validators`, C14) on what it looks at
    = the separation model's `validate`, for all arrays. -/
theorem validate_eq_model (r e : Separation.Arr) :
    GenV.separation.validate (PySep.srcOf r) (PySep.srcOf e) = validate r e := by
  rw [Mir.C14.GenVal.separation_validate_eq_model]
  have hr := srcOf_size r
  have he := srcOf_size e
  obtain ⟨rs, rd⟩ := r
  obtain ⟨es, ed⟩ := e
  unfold Mir.Validate.separationValidate Mir.Validate.silentCheck validate
  simp only [hr, he]
  simp only [PySep.srcOf, Mir.Validate.Src.ndim, Mir.Validate.Src.shape0, Mir.Validate.anySourceSilent, Mir.Validate.check,
    anySourceSilent, MAX_SOURCES, Mir.Validate.maxSources, bind, Except.bind, throw, throwThe, MonadExceptOf.throw, pure,
    Except.pure]
  by_cases h1 : rs = es
  · subst h1
    rcases rs with _ | ⟨n, t⟩
    · simp [Separation.Arr.size]
    · simp only [Separation.Arr.size]
      have e1 : ∀ d : List (List (List Rat)), (List.map (fun src => src.all fun samp => decide (samp.sum = 0)) d).any id
          = d.any fun src => src.all fun samp => decide (samp.sum = 0) := by
        intro d; simp [List.any_map, Function.comp_def]
      rw [e1, e1]
      simp only [List.length_cons]
      by_cases hA : 3 < t.length + 1
      · simp [hA]
      · by_cases hB : List.foldl (fun x1 x2 => x1 * x2) n t = 0
        · by_cases h8 : 100 < n <;> simp [hA, hB, h8]
        · by_cases hC : t.length + 1 < 2
          · simp [hA, hB, hC]
          · by_cases hD : (rd.any fun src => src.all fun samp => decide (samp.sum = 0)) = true <;>
            by_cases hE : (ed.any fun src => src.all fun samp => decide (samp.sum = 0)) = true <;>
            by_cases h8 : 100 < n <;> simp [hA, hB, hC, h8, hD, hE] <;> simp_all
  · simp [h1]

end Mir.C19.Gen
