import MirProofs.Lemmas.PySep
/-!
  C19 (generated definitions) — the functions of `mir_eval/separation.py` that `harness/translate/sepcrit.py` regenerates
  from the source on every run (`lean/MirGen/SepCrit.lean`, `Mir.Gen.separation.*`) equal the hand-written model
  (`MirModel/Separation.lean`) for ALL inputs, and the C19 headline statements hold of the translated definitions.
-/
namespace Mir.C19.Gen
open Mir Mir.Separation Mir.PySep

/-! ## 1. criteria -/

/-- `_safe_db` as translated = the model's `safeDb`, for all numerators and denominators (never raises). -/
theorem safe_db_eq_model (num den : Rat) : Gen.separation._safe_db num den = .ok (safeDb num den) := by
  unfold Gen.separation._safe_db safeDb
  by_cases h : den = 0
  · simp [h, npInf]; rfl
  · simp [h, PyM.divNp, Segment.npDiv, tenLog10]; rfl

/-- `_bss_source_crit` as translated = the model's `sourceCrit` with `E = np.sum(·**2)`, for every ndarray type. -/
theorem source_crit_eq_model {V : Type} [Nd V] (sTrue eSpat eInterf eArtif : V) :
    Gen.separation._bss_source_crit sTrue eSpat eInterf eArtif
      = .ok (sourceCrit Nd.sumsq ⟨sTrue, eSpat, eInterf, eArtif⟩) := by
  simp only [Gen.separation._bss_source_crit, safe_db_eq_model]; rfl

/-- `_bss_image_crit` as translated = the model's `imageCrit`. -/
theorem image_crit_eq_model {V : Type} [Nd V] (sTrue eSpat eInterf eArtif : V) :
    Gen.separation._bss_image_crit sTrue eSpat eInterf eArtif
      = .ok (imageCrit Nd.sumsq ⟨sTrue, eSpat, eInterf, eArtif⟩) := by
  simp only [Gen.separation._bss_image_crit, safe_db_eq_model]; rfl

/-! ## 2. the decomposition arithmetic of `_bss_decomp_mtifilt` (`_project` is an extern parameter) -/

/-- `_bss_decomp_mtifilt` as translated = the model's `decompRow` on the two results of `_project`, whatever `_project`
    is, whenever those results have the length `nsampl + flen - 1` of the padded target (what `_project` returns). -/
theorem decomp_mtifilt_eq_model (refs : List (List Rat)) (est r pT pA : List Rat) (j flen : Nat)
    (proj : List (List Rat) → List Rat → Nat → Py (List Rat))
    (hj : refs[j]? = some r) (hf : 1 ≤ flen)
    (hT : proj [r] est flen = .ok pT) (hA : proj refs est flen = .ok pA)
    (hlT : pT.length = r.length + (flen - 1)) (hlA : pA.length = r.length + (flen - 1))
    (hle : est.length ≤ r.length + (flen - 1)) :
    Gen.separation._bss_decomp_mtifilt refs est j flen proj =
      .ok ((decompRow (r ++ List.replicate (flen - 1) 0) pT pA est).sTrue.xs,
           (decompRow (r ++ List.replicate (flen - 1) 0) pT pA est).eSpat.xs,
           (decompRow (r ++ List.replicate (flen - 1) 0) pT pA est).eInterf.xs,
           (decompRow (r ++ List.replicate (flen - 1) 0) pT pA est).eArtif.xs) := by
  have hs : (r ++ List.replicate (flen - 1) (0 : Rat)).length = r.length + (flen - 1) := by simp
  generalize hS : r ++ List.replicate (flen - 1) (0 : Rat) = sT at hs
  have hrow : PySep.row refs j = .ok r := by simp [PySep.row, hj]
  have h1 : pT.length = sT.length := by omega
  have h2 : (List.zipWith (· - ·) pA sT).length = (List.zipWith (· - ·) pT sT).length := by simp; omega
  have h2' : pA.length = sT.length := by omega
  have h3 : (PySep.vneg sT).length = (List.zipWith (· - ·) pT sT).length := by simp [PySep.vneg]; omega
  have h4 : (List.zipWith (· - ·) (PySep.vneg sT) (List.zipWith (· - ·) pT sT)).length
      = (List.zipWith (· - ·) (List.zipWith (· - ·) pA sT) (List.zipWith (· - ·) pT sT)).length := by
    simp [PySep.vneg]; omega
  have h5 : est.length ≤ (List.zipWith (· - ·) (List.zipWith (· - ·) (PySep.vneg sT) (List.zipWith (· - ·) pT sT))
      (List.zipWith (· - ·) (List.zipWith (· - ·) pA sT) (List.zipWith (· - ·) pT sT))).length := by
    simp [PySep.vneg]; omega
  simp only [Gen.separation._bss_decomp_mtifilt, hrow, zeros_ok hf, ok_bind, hS, hT, hA, vsub_ok h1, vsub_ok h2',
    vsub_ok h2, vsub_ok h3, vsub_ok h4, PyM.len, addPrefix_ok _ _ h5]
  have hlen : (List.zipWith (· - ·) (List.zipWith (· - ·) (PySep.vneg sT) (List.zipWith (· - ·) pT sT))
      (List.zipWith (· - ·) (List.zipWith (· - ·) pA sT) (List.zipWith (· - ·) pT sT))).length = sT.length := by
    simp [PySep.vneg]; omega
  rw [hlen]
  rfl

/-- HEADLINE (exact decomposition identity, on the translated definition): whatever `_project` returns (of the right
    length), the four components `_bss_decomp_mtifilt` returns sum, sample by sample, to the zero-padded estimate. -/
theorem gen_decomp_components_sum (refs : List (List Rat)) (est r pT pA : List Rat) (j flen : Nat)
    (proj : List (List Rat) → List Rat → Nat → Py (List Rat))
    (hj : refs[j]? = some r) (hf : 1 ≤ flen)
    (hT : proj [r] est flen = .ok pT) (hA : proj refs est flen = .ok pA)
    (hlT : pT.length = r.length + (flen - 1)) (hlA : pA.length = r.length + (flen - 1))
    (hle : est.length ≤ r.length + (flen - 1)) :
    ∃ sTrue eSpat eInterf eArtif, Gen.separation._bss_decomp_mtifilt refs est j flen proj
        = .ok (sTrue, eSpat, eInterf, eArtif) ∧
      sTrue = r ++ List.replicate (flen - 1) 0 ∧
      ((⟨sTrue⟩ + ⟨eSpat⟩ + ⟨eInterf⟩ + ⟨eArtif⟩ : Sig)).xs = padTo (r.length + (flen - 1)) est := by
  refine ⟨_, _, _, _, decomp_mtifilt_eq_model refs est r pT pA j flen proj hj hf hT hA hlT hlA hle, rfl, ?_⟩
  have hs : (r ++ List.replicate (flen - 1) (0 : Rat)).length = r.length + (flen - 1) := by simp
  have := decomp_sums_exec (r ++ List.replicate (flen - 1) 0) pT pA est (by omega) (by omega)
  rw [hs] at this
  rw [this]
  apply List.take_of_length_le
  simp [padTo]; omega

/-- the exceptions of the arithmetic: a target index out of range is an `IndexError` … -/
theorem decomp_mtifilt_index_error (refs : List (List Rat)) (est : List Rat) (j flen : Nat)
    (proj : List (List Rat) → List Rat → Nat → Py (List Rat)) (hj : refs.length ≤ j) :
    Gen.separation._bss_decomp_mtifilt refs est j flen proj = .error .indexError := by
  have : refs[j]? = none := by simp [hj]
  simp [Gen.separation._bss_decomp_mtifilt, PySep.row, this, error_bind]

/-- … and `flen = 0` is the `ValueError` of `np.zeros(-1)`. -/
theorem decomp_mtifilt_flen_zero (refs : List (List Rat)) (est : List Rat) (j : Nat)
    (proj : List (List Rat) → List Rat → Nat → Py (List Rat)) (hj : j < refs.length) :
    Gen.separation._bss_decomp_mtifilt refs est j 0 proj = .error .valueError := by
  have : refs[j]? = some refs[j] := by simp [hj]
  simp [Gen.separation._bss_decomp_mtifilt, PySep.row, this, PySep.zeros, ok_bind] <;> try rfl

/-! ## 3. silence, validation -/

/-- `_any_source_silent` as translated: the model's `anySourceSilent` on an array with at least two axes, the
    `AxisError` (a `ValueError`) of `np.all(., axis=1)` otherwise. -/
theorem any_source_silent_eq_model (a : Separation.Arr) :
    Gen.separation._any_source_silent a
      = if a.shape.length < 2 then .error .valueError else .ok (anySourceSilent a) := by
  unfold Gen.separation._any_source_silent
  by_cases h : a.shape.length < 2
  · have : min a.shape.length 2 < 2 := by omega
    simp [PySep.allAxis1, PySep.sumTrailingEqZero, h, this, error_bind]
  · have : ¬ min a.shape.length 2 < 2 := by omega
    simp only [PySep.allAxis1, PySep.sumTrailingEqZero, h, this, if_false, ok_bind]
    simp [PySep.anyB, anySourceSilent, List.any_map, List.all_map, Function.comp_def]
    rfl

/-- the validator GENERATED from the source (`Mir.GenV.separation.validate`, part `validators`, C14) on what it looks at
    = the separation model's `validate`, for all arrays. -/
theorem validate_eq_model (r e : Separation.Arr) :
    GenV.separation.validate (PySep.srcOf r) (PySep.srcOf e) = validate r e := by
  rw [Mir.C14.GenVal.separation_validate_eq_model]
  have hr := srcOf_size r
  have he := srcOf_size e
  obtain ⟨rs, rd⟩ := r
  obtain ⟨es, ed⟩ := e
  unfold Mir.Validate.separationValidate Mir.Validate.silentCheck validate
  simp only [hr, he]
  simp only [PySep.srcOf, Mir.Validate.Src.ndim, Mir.Validate.Src.shape0, Mir.Validate.anySourceSilent, Mir.Validate.check,
    anySourceSilent, MAX_SOURCES, Mir.Validate.maxSources, bind, Except.bind, throw, throwThe, MonadExceptOf.throw, pure,
    Except.pure]
  by_cases h1 : rs = es
  · subst h1
    rcases rs with _ | ⟨n, t⟩
    · simp [Separation.Arr.size]
    · simp only [Separation.Arr.size]
      have e1 : ∀ d : List (List (List Rat)), (List.map (fun src => src.all fun samp => decide (samp.sum = 0)) d).any id
          = d.any fun src => src.all fun samp => decide (samp.sum = 0) := by
        intro d; simp [List.any_map, Function.comp_def]
      rw [e1, e1]
      simp only [List.length_cons]
      by_cases hA : 3 < t.length + 1
      · simp [hA]
      · by_cases hB : List.foldl (fun x1 x2 => x1 * x2) n t = 0
        · by_cases h8 : 100 < n <;> simp [hA, hB, h8]
        · by_cases hC : t.length + 1 < 2
          · simp [hA, hB, hC]
          · by_cases hD : (rd.any fun src => src.all fun samp => decide (samp.sum = 0)) = true <;>
            by_cases hE : (ed.any fun src => src.all fun samp => decide (samp.sum = 0)) = true <;>
            by_cases h8 : 100 < n <;> simp [hA, hB, hC, h8, hD, hE] <;> simp_all
  · simp [h1]

/-! ## 4. the selection glue of `bss_eval_sources` (the numerical kernel is a pair of extern parameters) -/

/-- `bss_eval_sources` as translated = the model's `bssEvalSources`, for ALL arrays (1-D promoted, empty, invalid) and
    both values of `compute_permutation`, whenever the kernel (the two extern parameters, run on estimate `e` against
    reference `t`) returns the criteria `C e t ·`. -/
theorem bss_eval_sources_eq_model {σ : Type} (ref est : Separation.Arr) (cp : Bool)
    (dec : Separation.Arr → List (List Rat) → Nat → Nat → Py (σ × σ × σ × σ))
    (crit : σ → σ → σ → σ → Py (Rat × Rat × Rat)) (C : Nat → Nat → Nat → Rat)
    (hK : ∀ e t, e < (promote2 est).shape.headD 0 → t < (promote2 est).shape.headD 0 →
      ∃ row c, (promote2 est).data[e]? = some row ∧ dec (promote2 ref) row t 512 = .ok c ∧
        crit c.1 c.2.1 c.2.2.1 c.2.2.2 = .ok (C e t 0, C e t 1, C e t 2)) :
    (Gen.separation.bss_eval_sources ref est cp dec crit).map outList
      = (bssEvalSources C ref est cp).map flatOut := by
  unfold Gen.separation.bss_eval_sources bssEvalSources
  simp only [promote2_eq, validate_eq_model]
  generalize promote2 est = E at *
  generalize promote2 ref = R at *
  cases hv : validate R E with
  | error err => rfl
  | ok u =>
    simp only [ok_bind]
    by_cases hz : R.size = 0 ∨ E.size = 0
    · have : (decide (R.size = 0) || decide (E.size = 0)) = true := by simpa using hz
      simp only [this, if_true, hz]
      rfl
    · have hz' : (decide (R.size = 0) || decide (E.size = 0)) = false := by simpa using hz
      simp only [hz', hz, if_false, Bool.false_eq_true]
      obtain ⟨n, t, hs⟩ : ∃ n t, E.shape = n :: t := by
        rcases h : E.shape with _ | ⟨n, t⟩
        · exact absurd h (validate_shape_ne_nil R E hv)
        · exact ⟨n, t, rfl⟩
      have hsh : PySep.shapeAt E 0 = .ok n := by simp [PySep.shapeAt, hs]
      have hn : E.shape.headD 0 = n := by simp [hs]
      rw [hn] at hK ⊢
      simp only [hsh, ok_bind]
      have hbody : ∀ e t, e < n → t < n →
          (do let r ← PySep.arrRow E e
              let c ← dec R r t 512
              let k ← crit c.1 c.2.1 c.2.2.1 c.2.2.2
              pure [k.1, k.2.1, k.2.2] : Py (List Rat)) = .ok [C e t 0, C e t 1, C e t 2] := by
        intro e t he ht
        obtain ⟨row, c, h1, h2, h3⟩ := hK e t he ht
        simp only [PySep.arrRow, h1, ok_bind, h2, h3]
        rfl
      cases cp with
      | false =>
        simp only [Bool.false_eq_true, if_false]
        rw [forRange_ok n _ (fun j => [C j j 0, C j j 1, C j j 2]) (fun j hj => hbody j j hj hj)]
        simp only [ok_bind, selectOutputs, Bool.false_eq_true, if_false]
        simp [outList, flatOut, PySep.tab1, List.map_map, Function.comp_def, Except.map, pure, Except.pure,
          List.range_succ, List.range_eq_range', selectFrom_diag]
      | true =>
        simp only [if_true]
        rw [forRange2_ok n n _ (fun e t => [C e t 0, C e t 1, C e t 2]) (fun e he t ht => hbody e t he ht)]
        simp only [ok_bind, tab2_tabOf n C _ (by decide : 0 < 3), tab2_tabOf n C _ (by decide : 1 < 3),
          tab2_tabOf n C _ (by decide : 2 < 3), PySep.permutations, PySep.forEnum]
        rw [forEnumFrom_ok _ (fun perm => [meanSir n (fun e t => C e t 1) perm]) _ (by
          intro k perm hp
          rw [fancy2_perm n _ perm hp, ok_bind, mean_selectFrom, (mem_perms_range n perm hp).1]
          rfl)]
        simp only [ok_bind]
        obtain ⟨p, ps, hps⟩ : ∃ p ps, perms (List.range n) = p :: ps := by
          rcases h : perms (List.range n) with _ | ⟨p, ps⟩
          · exact absurd h (perms_range_ne_nil n)
          · exact ⟨p, ps, rfl⟩
        have hbest : bestPerm n (fun e t => C e t 1) = firstMaxBy (meanSir n fun e t => C e t 1) p ps := by
          simp [bestPerm, hps]
        have hmem := bestPerm_mem n (fun e t => C e t 1)
        have htab : PySep.tab1 ((perms (List.range n)).map fun perm => [meanSir n (fun e t => C e t 1) perm]) 0
            = (p :: ps).map (meanSir n fun e t => C e t 1) := by
          simp [PySep.tab1, hps, List.map_map, Function.comp_def]
        rw [htab]
        have hgi : PySep.getItem (p :: ps) (PySep.argmaxAux (meanSir n (fun e t => C e t 1) p) 0 1
            (ps.map (meanSir n fun e t => C e t 1))) = .ok (firstMaxBy (meanSir n fun e t => C e t 1) p ps) := by
          simp only [PySep.getItem, argmaxAux_spec (meanSir n fun e t => C e t 1) (p :: ps) ps p 0 1 rfl rfl]
        rw [hps]
        simp only [List.map_cons, PySep.argmax, ok_bind, hgi, ← hbest, fancy2_perm n _ _ hmem]
        simp [outList, flatOut, selectOutputs, Except.map, pure, Except.pure, List.range_succ]

/-- HEADLINE (on the translated `bss_eval_sources`, valid non-empty input, kernel returning `C`): the four outputs are
    the criteria selected along `popt`, where `popt` is the identity without `compute_permutation` and otherwise a
    PERMUTATION of `0 … nsrc-1` that MAXIMISES the mean SIR (the first such in `itertools.permutations` order). -/
theorem gen_bss_eval_sources_headline {σ : Type} (ref est : Separation.Arr) (cp : Bool)
    (dec : Separation.Arr → List (List Rat) → Nat → Nat → Py (σ × σ × σ × σ))
    (crit : σ → σ → σ → σ → Py (Rat × Rat × Rat)) (C : Nat → Nat → Nat → Rat)
    (hv : validate (promote2 ref) (promote2 est) = .ok ())
    (hne : ¬ ((promote2 ref).size = 0 ∨ (promote2 est).size = 0))
    (hK : ∀ e t, e < (promote2 est).shape.headD 0 → t < (promote2 est).shape.headD 0 →
      ∃ row c, (promote2 est).data[e]? = some row ∧ dec (promote2 ref) row t 512 = .ok c ∧
        crit c.1 c.2.1 c.2.2.1 c.2.2.2 = .ok (C e t 0, C e t 1, C e t 2)) :
    ∃ popt : List Nat,
      Gen.separation.bss_eval_sources ref est cp dec crit
        = .ok (selectFrom (fun e t => C e t 0) 0 popt, selectFrom (fun e t => C e t 1) 0 popt,
               selectFrom (fun e t => C e t 2) 0 popt, popt) ∧
      popt.Perm (List.range ((promote2 est).shape.headD 0)) ∧
      (cp = false → popt = List.range ((promote2 est).shape.headD 0)) ∧
      (cp = true → ∀ q : List Nat, q.Perm (List.range ((promote2 est).shape.headD 0)) →
        meanSir ((promote2 est).shape.headD 0) (fun e t => C e t 1) q
          ≤ meanSir ((promote2 est).shape.headD 0) (fun e t => C e t 1) popt) := by
  have h := bss_eval_sources_eq_model ref est cp dec crit C hK
  unfold bssEvalSources at h
  simp only [hv, ok_bind, hne, if_false] at h
  generalize (promote2 est).shape.headD 0 = n at *
  refine ⟨if cp then bestPerm n (fun e t => C e t 1) else List.range n, ?_, ?_, ?_, ?_⟩
  · cases hG : Gen.separation.bss_eval_sources ref est cp dec crit with
    | error err => rw [hG] at h; exact absurd h (by simp [Except.map, pure, Except.pure])
    | ok x =>
      rw [hG] at h
      have h' : outList x = selectOutputs 3 1 n C cp := by
        simpa [Except.map, pure, Except.pure, flatOut] using h
      congr 1
      apply outList_injective
      rw [h']
      simp [outList, selectOutputs, List.range_succ]
  · cases cp
    · simp
    · simpa using bestPerm_is_perm n _
  · intro hc; simp [hc]
  · intro hc q hq; simp only [hc, if_true]; exact bestPerm_max n _ q hq

example : Gen.separation._safe_db 1 0 = .ok .posInf ∧ Gen.separation._safe_db 3 4 = .ok (.ofRatio (3 / 4)) := by
  refine ⟨by rw [safe_db_eq_model]; rfl, by rw [safe_db_eq_model]; rfl⟩

/-! ## 5. the window loop of the framewise functions (the non-framewise function is an extern parameter) -/

/-- `int(np.floor((nsampl - window + hop) / hop))` as translated = the model's `nwin` (`hop >= 0`; `hop = 0` is the
    `ZeroDivisionError` of the Python division). -/
theorem nwin_eq_model (m window hop : Int) (hh : 0 ≤ hop) :
    (PyS.divF (((m - window + hop : Int)) : Rat) ((hop : Int) : Rat)).map PySep.floorInt = nwin m window hop := by
  unfold nwin PyS.divF
  by_cases h0 : hop = 0
  · simp [h0]; rfl
  · have hc : ((hop : Int) : Rat) ≠ 0 := by exact_mod_cast h0
    simp only [hc, h0, if_false, Except.map, PySep.floorInt]
    have hn : hop = ((hop.toNat : Nat) : Int) := by omega
    rw [Int.fdiv_eq_ediv_of_nonneg _ hh]
    have hq : ((hop : Int) : Rat) = ((hop.toNat : Nat) : Rat) := by
      conv => lhs; rw [hn]
      exact Int.cast_natCast _
    have e2 : (m - window + hop) / hop = (m - window + hop) / ((hop.toNat : Nat) : Int) := by rw [← hn]
    have := Rat.floor_intCast_div_natCast (m - window + hop) hop.toNat
    rw [hq, e2, ← this]
    rfl

theorem silent_slice (a : Separation.Arr) (s e : Nat) (h : 2 ≤ a.shape.length) :
    Gen.separation._any_source_silent (sliceArr a s e) = .ok (anySourceSilent (sliceArr a s e)) := by
  rw [any_source_silent_eq_model, sliceArr_shape_length]
  have : ¬ a.shape.length < 2 := by omega
  simp [this]

/-- `bss_eval_sources_framewise` as translated = the model's `sourcesFramewise`, for ALL arrays (1-D promoted, empty,
    invalid), every `window >= 0`, `hop >= 0` (`hop = 0`: `ZeroDivisionError`) and both values of `compute_permutation`,
    whatever function `bss` stands for `bss_eval_sources` (as long as it returns one value per source): the fall-back
    below two windows, the window slices, the NaN columns of silent windows, no cell left unwritten. -/
theorem sources_framewise_eq_model (ref est : Separation.Arr) (window hop : Int) (cp : Bool)
    (bss : Separation.Arr → Separation.Arr → Bool → Py (List Rat × List Rat × List Rat × List Nat))
    (ev : Separation.Arr → Separation.Arr → Bool → Nat → Nat → Rat) (pv : Separation.Arr → Separation.Arr → Nat → Nat)
    (hw : 0 ≤ window) (hh : 0 ≤ hop)
    (hB : ∀ r t, bss r t cp = .ok ((List.range (r.shape.headD 0)).map (ev r t cp 0),
      (List.range (r.shape.headD 0)).map (ev r t cp 1), (List.range (r.shape.headD 0)).map (ev r t cp 2),
      (List.range (r.shape.headD 0)).map (pv r t)))
    (hP : ∀ r t j, ev r t cp 3 j = ((pv r t j : Nat) : Rat)) :
    (Gen.separation.bss_eval_sources_framewise ref est window hop cp bss).map matsOut4
      = (sourcesFramewise ev ref est window hop cp).map flatMats := by
  unfold Gen.separation.bss_eval_sources_framewise sourcesFramewise
  simp only [promote2_eq, validate_eq_model]
  generalize promote2 est = E at *
  generalize promote2 ref = R at *
  cases hv : validate R E with
  | error err => rfl
  | ok u =>
    simp only [ok_bind]
    by_cases hz : R.size = 0 ∨ E.size = 0
    · have : (decide (R.size = 0) || decide (E.size = 0)) = true := by simpa using hz
      simp only [this, if_true, hz]
      rfl
    · have hz' : (decide (R.size = 0) || decide (E.size = 0)) = false := by simpa using hz
      simp only [hz', hz, if_false, Bool.false_eq_true]
      have hRE := validate_shapes R E hv
      have hnd := validate_ndim R E hv (by tauto)
      obtain ⟨n, m, t, hs⟩ : ∃ n m t, R.shape = n :: m :: t := by
        rcases h : R.shape with _ | ⟨n, _ | ⟨m, t⟩⟩
        · simp [h] at hnd
        · simp [h] at hnd
        · exact ⟨n, m, t, rfl⟩
      have hsE : E.shape = n :: m :: t := by rw [← hRE, hs]
      have h0 : PySep.shapeAt R 0 = .ok n := by simp [PySep.shapeAt, hs]
      have h1 : PySep.shapeAt R 1 = .ok m := by simp [PySep.shapeAt, hs]
      have hnw := nwin_eq_model m window hop hh
      unfold framewiseBody
      simp only [h0, h1, ok_bind, hs, List.headD_cons, List.drop_succ_cons, List.drop_zero]
      rw [← hnw]
      cases hq : PyS.divF (((m : Int) - window + hop : Int) : Rat) ((hop : Int) : Rat) with
      | error err => rfl
      | ok q =>
        simp only [Except.map, ok_bind]
        by_cases h2 : PySep.floorInt q < 2
        · simp only [h2, decide_true, if_true, hB R E, ok_bind, hs, List.headD_cons]
          simp [matsOut4, flatMats, PySep.expandLast, PySep.expandLastN, List.range_succ, hP, List.map_map,
            Function.comp_def, pure, Except.pure]
        · simp only [h2, decide_false, if_false, Bool.false_eq_true]
          rw [forRange_ok _ _ (fun k => (List.range 4).map fun o => (List.range n).map fun j =>
            wcell ev R E window hop cp k o j) (by
              intro k hk
              have e1 : ((k : Nat) : Int) * hop = ((k * hop.toNat : Nat) : Int) := by
                rw [Nat.cast_mul, Int.toNat_of_nonneg hh]
              have e2 : ((k * hop.toNat : Nat) : Int) + window = ((k * hop.toNat + window.toNat : Nat) : Int) := by
                rw [Nat.cast_add, Int.toNat_of_nonneg hw]
              have hr0 : ∀ (a : Separation.Arr) (s e : Nat), a.shape = n :: m :: t → (sliceArr a s e).shape.headD 0 = n := by
                intro a s e ha; simp [sliceArr, ha]
              have hr0' : ∀ (a : Separation.Arr) (s e : Nat), a.shape = n :: m :: t →
                  (sliceArr a s e).shape.head?.getD 0 = n := by
                intro a s e ha; simp [sliceArr, ha]
              simp only [e1, e2, slice1_eq_model R 2 _ _ hnd, slice1_eq_model E 2 _ _ (by rw [← hRE]; exact hnd), ok_bind,
                silent_slice R _ _ hnd, silent_slice E _ _ (by rw [← hRE]; exact hnd)]
              cases hsr : anySourceSilent (sliceArr R (k * hop.toNat) (k * hop.toNat + window.toNat)) <;>
              cases hst : anySourceSilent (sliceArr E (k * hop.toNat) (k * hop.toNat + window.toNat)) <;>
              simp [hB, hr0 _ _ _ hs, hr0' _ _ _ hs, colOf_range, colOfN_range, wcell, hsr, hst, PySep.nanCol, List.range_succ, hP, pure,
                Except.pure, ok_bind])]
          simp only [ok_bind, pure, Except.pure, matsOut4, flatMats,
            matOfCols_spec n _ 4 (wcell ev R E window hop cp) 0 (by decide),
            matOfCols_spec n _ 4 (wcell ev R E window hop cp) 1 (by decide),
            matOfCols_spec n _ 4 (wcell ev R E window hop cp) 2 (by decide),
            matOfCols_spec n _ 4 (wcell ev R E window hop cp) 3 (by decide)]
          simp [windows, wcell, List.range_succ, List.map_map, Function.comp_def]

/-- `bss_eval_images_framewise` as translated = the model's `imagesFramewise` (FIVE outputs; NaN in all five on a silent
    window, five empty arrays on empty input), for ALL arrays (made 3-D, empty, invalid), every `window >= 0`, `hop >= 0` (`hop = 0`: `ZeroDivisionError`) and both values of `compute_permutation`,
    whatever function `bss` stands for `bss_eval_images` (as long as it returns one value per source): the fall-back
    below two windows, the window slices, the NaN columns of silent windows, no cell left unwritten. -/
theorem images_framewise_eq_model (ref est : Separation.Arr) (window hop : Int) (cp : Bool)
    (bss : Separation.Arr → Separation.Arr → Bool → Py (List Rat × List Rat × List Rat × List Rat × List Nat))
    (ev : Separation.Arr → Separation.Arr → Bool → Nat → Nat → Rat) (pv : Separation.Arr → Separation.Arr → Nat → Nat)
    (hw : 0 ≤ window) (hh : 0 ≤ hop)
    (hB : ∀ r t, bss r t cp = .ok ((List.range (r.shape.headD 0)).map (ev r t cp 0),
      (List.range (r.shape.headD 0)).map (ev r t cp 1), (List.range (r.shape.headD 0)).map (ev r t cp 2),
      (List.range (r.shape.headD 0)).map (ev r t cp 3), (List.range (r.shape.headD 0)).map (pv r t)))
    (hP : ∀ r t j, ev r t cp 4 j = ((pv r t j : Nat) : Rat)) :
    (Gen.separation.bss_eval_images_framewise ref est window hop cp bss).map matsOut5
      = (imagesFramewise ev ref est window hop cp).map flatMats := by
  unfold Gen.separation.bss_eval_images_framewise imagesFramewise
  simp only [validate_eq_model]
  have h3 := atleast3d_ndim ref
  generalize atleast3d est = E at *
  generalize atleast3d ref = R at *
  cases hv : validate R E with
  | error err => rfl
  | ok u =>
    simp only [ok_bind]
    by_cases hz : R.size = 0 ∨ E.size = 0
    · have : (decide (R.size = 0) || decide (E.size = 0)) = true := by simpa using hz
      simp only [this, if_true, hz]
      rfl
    · have hz' : (decide (R.size = 0) || decide (E.size = 0)) = false := by simpa using hz
      simp only [hz', hz, if_false, Bool.false_eq_true]
      have hRE := validate_shapes R E hv
      have hnd : 2 ≤ R.shape.length := by omega
      obtain ⟨n, m, t, hs⟩ : ∃ n m t, R.shape = n :: m :: t := by
        rcases h : R.shape with _ | ⟨n, _ | ⟨m, t⟩⟩
        · simp [h] at hnd
        · simp [h] at hnd
        · exact ⟨n, m, t, rfl⟩
      have hsE : E.shape = n :: m :: t := by rw [← hRE, hs]
      have h0 : PySep.shapeAt R 0 = .ok n := by simp [PySep.shapeAt, hs]
      have h1 : PySep.shapeAt R 1 = .ok m := by simp [PySep.shapeAt, hs]
      have hnw := nwin_eq_model m window hop hh
      unfold framewiseBody
      simp only [h0, h1, ok_bind, hs, List.headD_cons, List.drop_succ_cons, List.drop_zero]
      rw [← hnw]
      cases hq : PyS.divF (((m : Int) - window + hop : Int) : Rat) ((hop : Int) : Rat) with
      | error err => rfl
      | ok q =>
        simp only [Except.map, ok_bind]
        by_cases h2 : PySep.floorInt q < 2
        · simp only [h2, decide_true, if_true, hB R E, ok_bind, hs, List.headD_cons]
          simp [matsOut5, flatMats, PySep.expandLast, PySep.expandLastN, List.range_succ, hP, List.map_map,
            Function.comp_def, pure, Except.pure]
        · simp only [h2, decide_false, if_false, Bool.false_eq_true]
          rw [forRange_ok _ _ (fun k => (List.range 5).map fun o => (List.range n).map fun j =>
            wcell ev R E window hop cp k o j) (by
              intro k hk
              have e1 : ((k : Nat) : Int) * hop = ((k * hop.toNat : Nat) : Int) := by
                rw [Nat.cast_mul, Int.toNat_of_nonneg hh]
              have e2 : ((k * hop.toNat : Nat) : Int) + window = ((k * hop.toNat + window.toNat : Nat) : Int) := by
                rw [Nat.cast_add, Int.toNat_of_nonneg hw]
              have hr0 : ∀ (a : Separation.Arr) (s e : Nat), a.shape = n :: m :: t → (sliceArr a s e).shape.headD 0 = n := by
                intro a s e ha; simp [sliceArr, ha]
              have hr0' : ∀ (a : Separation.Arr) (s e : Nat), a.shape = n :: m :: t →
                  (sliceArr a s e).shape.head?.getD 0 = n := by
                intro a s e ha; simp [sliceArr, ha]
              simp only [e1, e2, slice1_eq_model R 3 _ _ h3, slice1_eq_model E 3 _ _ (by rw [← hRE]; exact h3), ok_bind,
                silent_slice R _ _ hnd, silent_slice E _ _ (by rw [← hRE]; exact hnd)]
              cases hsr : anySourceSilent (sliceArr R (k * hop.toNat) (k * hop.toNat + window.toNat)) <;>
              cases hst : anySourceSilent (sliceArr E (k * hop.toNat) (k * hop.toNat + window.toNat)) <;>
              simp [hB, hr0 _ _ _ hs, hr0' _ _ _ hs, colOf_range, colOfN_range, wcell, hsr, hst, PySep.nanCol, List.range_succ, hP, pure,
                Except.pure, ok_bind])]
          simp only [ok_bind, pure, Except.pure, matsOut5, flatMats,
            matOfCols_spec n _ 5 (wcell ev R E window hop cp) 0 (by decide),
            matOfCols_spec n _ 5 (wcell ev R E window hop cp) 1 (by decide),
            matOfCols_spec n _ 5 (wcell ev R E window hop cp) 2 (by decide),
            matOfCols_spec n _ 5 (wcell ev R E window hop cp) 3 (by decide),
            matOfCols_spec n _ 5 (wcell ev R E window hop cp) 4 (by decide)]
          simp [windows, wcell, List.range_succ, List.map_map, Function.comp_def]

/-- HEADLINE (framewise row k = non-framewise on window k, on the translated `bss_eval_sources_framewise`): on a valid
    non-empty input with at least two windows every cell of all FOUR returned matrices is what `bss` (the function
    standing for `bss_eval_sources`) returns on that window's slices, or NaN when the window has a silent source. -/
theorem gen_sources_framewise_consistent (ref est : Separation.Arr) (window hop : Int) (cp : Bool) (nw : Int)
    (bss : Separation.Arr → Separation.Arr → Bool → Py (List Rat × List Rat × List Rat × List Nat))
    (ev : Separation.Arr → Separation.Arr → Bool → Nat → Nat → Rat) (pv : Separation.Arr → Separation.Arr → Nat → Nat)
    (hw : 0 ≤ window) (hh : 0 ≤ hop)
    (hB : ∀ r t, bss r t cp = .ok ((List.range (r.shape.headD 0)).map (ev r t cp 0),
      (List.range (r.shape.headD 0)).map (ev r t cp 1), (List.range (r.shape.headD 0)).map (ev r t cp 2),
      (List.range (r.shape.headD 0)).map (pv r t)))
    (hP : ∀ r t j, ev r t cp 3 j = ((pv r t j : Nat) : Rat))
    (hv : validate (promote2 ref) (promote2 est) = .ok ())
    (hne : ¬ ((promote2 ref).size = 0 ∨ (promote2 est).size = 0))
    (hn : nwin ((((promote2 ref).shape.drop 1).headD 0 : Nat)) window hop = .ok nw) (h2 : 2 ≤ nw) :
    ∃ x, Gen.separation.bss_eval_sources_framewise ref est window hop cp bss = .ok x ∧
      ∀ o j k, o < 4 → j < (promote2 ref).shape.headD 0 → k < nw.toNat →
        cellAt (matsOut4 x) o j k = some (windowCell (fun _ => true) ev (promote2 ref) (promote2 est) cp
          (k * hop.toNat) (k * hop.toNat + window.toNat) o j) := by
  obtain ⟨ms, h, _, hc⟩ := sources_framewise_consistent ev ref est window hop cp nw hv hne hn h2
  have he := sources_framewise_eq_model ref est window hop cp bss ev pv hw hh hB hP
  rw [h] at he
  cases hG : Gen.separation.bss_eval_sources_framewise ref est window hop cp bss with
  | error e => rw [hG] at he; simp [Except.map] at he
  | ok x =>
    rw [hG] at he
    have hx : matsOut4 x = ms := by simpa [Except.map, flatMats] using he
    exact ⟨x, rfl, by rw [hx]; exact hc⟩

/-- HEADLINE (images): the same for all FIVE matrices — in particular NaN in EVERY one of them (ISR included) on a
    silent window, no cell left unwritten. -/
theorem gen_images_framewise_consistent (ref est : Separation.Arr) (window hop : Int) (cp : Bool) (nw : Int)
    (bss : Separation.Arr → Separation.Arr → Bool → Py (List Rat × List Rat × List Rat × List Rat × List Nat))
    (ev : Separation.Arr → Separation.Arr → Bool → Nat → Nat → Rat) (pv : Separation.Arr → Separation.Arr → Nat → Nat)
    (hw : 0 ≤ window) (hh : 0 ≤ hop)
    (hB : ∀ r t, bss r t cp = .ok ((List.range (r.shape.headD 0)).map (ev r t cp 0),
      (List.range (r.shape.headD 0)).map (ev r t cp 1), (List.range (r.shape.headD 0)).map (ev r t cp 2),
      (List.range (r.shape.headD 0)).map (ev r t cp 3), (List.range (r.shape.headD 0)).map (pv r t)))
    (hP : ∀ r t j, ev r t cp 4 j = ((pv r t j : Nat) : Rat))
    (hv : validate (atleast3d ref) (atleast3d est) = .ok ())
    (hne : ¬ ((atleast3d ref).size = 0 ∨ (atleast3d est).size = 0))
    (hn : nwin ((((atleast3d ref).shape.drop 1).headD 0 : Nat)) window hop = .ok nw) (h2 : 2 ≤ nw) :
    ∃ x, Gen.separation.bss_eval_images_framewise ref est window hop cp bss = .ok x ∧
      (∀ o j k, o < 5 → j < (atleast3d ref).shape.headD 0 → k < nw.toNat →
        cellAt (matsOut5 x) o j k = some (windowCell (fun _ => true) ev (atleast3d ref) (atleast3d est) cp
          (k * hop.toNat) (k * hop.toNat + window.toNat) o j)) ∧
      (∀ o j k, o < 5 → j < (atleast3d ref).shape.headD 0 → k < nw.toNat →
        (anySourceSilent (sliceArr (atleast3d ref) (k * hop.toNat) (k * hop.toNat + window.toNat)) ||
          anySourceSilent (sliceArr (atleast3d est) (k * hop.toNat) (k * hop.toNat + window.toNat))) = true →
        cellAt (matsOut5 x) o j k = some .nan) := by
  obtain ⟨ms, h, _, hc⟩ := images_framewise_consistent ev ref est window hop cp nw hv hne hn h2
  have he := images_framewise_eq_model ref est window hop cp bss ev pv hw hh hB hP
  rw [h] at he
  cases hG : Gen.separation.bss_eval_images_framewise ref est window hop cp bss with
  | error e => rw [hG] at he; simp [Except.map] at he
  | ok x =>
    rw [hG] at he
    have hx : matsOut5 x = ms := by simpa [Except.map, flatMats] using he
    refine ⟨x, rfl, by rw [hx]; exact hc, fun o j k ho hj hk hs => ?_⟩
    rw [hx, hc o j k ho hj hk]
    simp only [windowCell, hs, if_true]

/-- non-vacuity: the stand-in of the driver satisfies the hypotheses on `bss` (a value per source, `perm` integral) -/
example : ∃ x, PySep.stubEval4 ⟨[2, 3], [[[1], [2], [0]], [[0], [1], [1]]]⟩ ⟨[2, 3], [[[1], [0], [0]], [[2], [1], [1]]]⟩ true
    = .ok x ∧ x.2.2.2 = [1, 0] := ⟨_, rfl, by decide +kernel⟩

end Mir.C19.Gen
