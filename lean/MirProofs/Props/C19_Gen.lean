import MirGen.SepCrit
import MirProofs.Props.C19
/-!
  C19 (generated definitions) — the functions of `mir_eval/separation.py` that `harness/translate/sepcrit.py` regenerates
  from the source on every run (`lean/MirGen/SepCrit.lean`, `Mir.Gen.separation.*`) equal the hand-written model
  (`MirModel/Separation.lean`) for ALL inputs, and the C19 headline statements hold of the translated definitions.
-/
namespace Mir.C19.Gen
open Mir Mir.Separation Mir.PySep

/-! ## 1. criteria -/

/-- `_safe_db` as translated = the model's `safeDb`, for all numerators and denominators (never raises). -/
theorem safe_db_eq_model (num den : Rat) : Gen.separation._safe_db num den = .ok (safeDb num den) := by
  unfold Gen.separation._safe_db safeDb
  by_cases h : den = 0
  · simp [h, npInf]; rfl
  · simp [h, PyM.divNp, Segment.npDiv, tenLog10]; rfl

/-- `_bss_source_crit` as translated = the model's `sourceCrit` with `E = np.sum(·**2)`, for every ndarray type. -/
theorem source_crit_eq_model {V : Type} [Nd V] (sTrue eSpat eInterf eArtif : V) :
    Gen.separation._bss_source_crit sTrue eSpat eInterf eArtif
      = .ok (sourceCrit Nd.sumsq ⟨sTrue, eSpat, eInterf, eArtif⟩) := by
  simp only [Gen.separation._bss_source_crit, safe_db_eq_model]; rfl

/-- `_bss_image_crit` as translated = the model's `imageCrit`. -/
theorem image_crit_eq_model {V : Type} [Nd V] (sTrue eSpat eInterf eArtif : V) :
    Gen.separation._bss_image_crit sTrue eSpat eInterf eArtif
      = .ok (imageCrit Nd.sumsq ⟨sTrue, eSpat, eInterf, eArtif⟩) := by
  simp only [Gen.separation._bss_image_crit, safe_db_eq_model]; rfl

end Mir.C19.Gen
