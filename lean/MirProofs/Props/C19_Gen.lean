import MirGen.SepCrit
import MirProofs.Props.C19
import MirProofs.Props.C14_GenVal
/-!
  C19 (generated definitions) — the functions of `mir_eval/separation.py` that `harness/translate/sepcrit.py` regenerates
  from the source on every run (`lean/MirGen/SepCrit.lean`, `Mir.Gen.separation.*`) equal the hand-written model
  (`MirModel/Separation.lean`) for ALL inputs, and the C19 headline statements hold of the translated definitions.
-/
namespace Mir.C19.Gen
open Mir Mir.Separation Mir.PySep

/-! ## 1. criteria -/

/-- `_safe_db` as translated = the model's `safeDb`, for all numerators and denominators (never raises). -/
theorem safe_db_eq_model (num den : Rat) : Gen.separation._safe_db num den = .ok (safeDb num den) := by
  unfold Gen.separation._safe_db safeDb
  by_cases h : den = 0
  · simp [h, npInf]; rfl
  · simp [h, PyM.divNp, Segment.npDiv, tenLog10]; rfl

/-- `_bss_source_crit` as translated = the model's `sourceCrit` with `E = np.sum(·**2)`, for every ndarray type. -/
theorem source_crit_eq_model {V : Type} [Nd V] (sTrue eSpat eInterf eArtif : V) :
    Gen.separation._bss_source_crit sTrue eSpat eInterf eArtif
      = .ok (sourceCrit Nd.sumsq ⟨sTrue, eSpat, eInterf, eArtif⟩) := by
  simp only [Gen.separation._bss_source_crit, safe_db_eq_model]; rfl

/-- `_bss_image_crit` as translated = the model's `imageCrit`. -/
theorem image_crit_eq_model {V : Type} [Nd V] (sTrue eSpat eInterf eArtif : V) :
    Gen.separation._bss_image_crit sTrue eSpat eInterf eArtif
      = .ok (imageCrit Nd.sumsq ⟨sTrue, eSpat, eInterf, eArtif⟩) := by
  simp only [Gen.separation._bss_image_crit, safe_db_eq_model]; rfl

/-! ## 2. the decomposition arithmetic of `_bss_decomp_mtifilt` (`_project` is an extern parameter) -/

theorem ok_bind {α β : Type} (a : α) (f : α → Py β) : (Except.ok a >>= f) = f a := rfl
theorem error_bind {α β : Type} (e : PyErr) (f : α → Py β) : ((Except.error e : Py α) >>= f) = Except.error e := rfl

theorem vsub_ok {a b : List Rat} (h : a.length = b.length) :
    PyMel.vsub a b = .ok (List.zipWith (· - ·) a b) := by
  simp [PyMel.vsub, PyMel.bcast, h]

theorem vadd_ok {a b : List Rat} (h : a.length = b.length) :
    PyMel.vadd a b = .ok (List.zipWith (· + ·) a b) := by
  simp [PyMel.vadd, PyMel.bcast, h]

theorem zeros_ok {flen : Nat} (hf : 1 ≤ flen) : PySep.zeros ((flen : Int) - 1) = .ok (List.replicate (flen - 1) 0) := by
  have h1 : ¬ ((flen : Int) - 1 < 0) := by omega
  have h2 : ((flen : Int) - 1).toNat = flen - 1 := by omega
  simp [PySep.zeros, h1, h2]

theorem zipWith_add_zeros (x : List Rat) : List.zipWith (· + ·) x (List.replicate x.length (0 : Rat)) = x := by
  induction x with
  | nil => rfl
  | cons a t ih => simp [List.replicate_succ, ih]

theorem zipWith_add_pad (a d est : List Rat) (h : a.length = est.length) :
    List.zipWith (· + ·) (a ++ d) (est ++ List.replicate d.length 0) = List.zipWith (· + ·) a est ++ d := by
  rw [List.zipWith_append h, zipWith_add_zeros]

/-- `x[:n] += est` for `n = len(est) <= len(x)` adds the zero-padded estimate. -/
theorem addPrefix_ok (x est : List Rat) (h : est.length ≤ x.length) :
    PySep.addPrefix x est.length est = .ok (List.zipWith (· + ·) x (padTo x.length est)) := by
  have hl : (x.take est.length).length = est.length := by simp [h]
  have hd : (x.drop est.length).length = x.length - est.length := by simp
  have key := zipWith_add_pad (x.take est.length) (x.drop est.length) est hl
  rw [List.take_append_drop, hd] at key
  unfold PySep.addPrefix
  rw [vadd_ok hl]
  have hz : (List.zipWith (· + ·) (x.take est.length) est).length = (x.take est.length).length := by simp [hl]
  simp only [ok_bind, padTo, hz, ne_eq, not_true_eq_false, if_false, key]
  rfl

/-- `_bss_decomp_mtifilt` as translated = the model's `decompRow` on the two results of `_project`, whatever `_project`
    is, whenever those results have the length `nsampl + flen - 1` of the padded target (what `_project` returns). -/
theorem decomp_mtifilt_eq_model (refs : List (List Rat)) (est r pT pA : List Rat) (j flen : Nat)
    (proj : List (List Rat) → List Rat → Nat → Py (List Rat))
    (hj : refs[j]? = some r) (hf : 1 ≤ flen)
    (hT : proj [r] est flen = .ok pT) (hA : proj refs est flen = .ok pA)
    (hlT : pT.length = r.length + (flen - 1)) (hlA : pA.length = r.length + (flen - 1))
    (hle : est.length ≤ r.length + (flen - 1)) :
    Gen.separation._bss_decomp_mtifilt refs est j flen proj =
      .ok ((decompRow (r ++ List.replicate (flen - 1) 0) pT pA est).sTrue.xs,
           (decompRow (r ++ List.replicate (flen - 1) 0) pT pA est).eSpat.xs,
           (decompRow (r ++ List.replicate (flen - 1) 0) pT pA est).eInterf.xs,
           (decompRow (r ++ List.replicate (flen - 1) 0) pT pA est).eArtif.xs) := by
  have hs : (r ++ List.replicate (flen - 1) (0 : Rat)).length = r.length + (flen - 1) := by simp
  generalize hS : r ++ List.replicate (flen - 1) (0 : Rat) = sT at hs
  have hrow : PySep.row refs j = .ok r := by simp [PySep.row, hj]
  have h1 : pT.length = sT.length := by omega
  have h2 : (List.zipWith (· - ·) pA sT).length = (List.zipWith (· - ·) pT sT).length := by simp; omega
  have h2' : pA.length = sT.length := by omega
  have h3 : (PySep.vneg sT).length = (List.zipWith (· - ·) pT sT).length := by simp [PySep.vneg]; omega
  have h4 : (List.zipWith (· - ·) (PySep.vneg sT) (List.zipWith (· - ·) pT sT)).length
      = (List.zipWith (· - ·) (List.zipWith (· - ·) pA sT) (List.zipWith (· - ·) pT sT)).length := by
    simp [PySep.vneg]; omega
  have h5 : est.length ≤ (List.zipWith (· - ·) (List.zipWith (· - ·) (PySep.vneg sT) (List.zipWith (· - ·) pT sT))
      (List.zipWith (· - ·) (List.zipWith (· - ·) pA sT) (List.zipWith (· - ·) pT sT))).length := by
    simp [PySep.vneg]; omega
  simp only [Gen.separation._bss_decomp_mtifilt, hrow, zeros_ok hf, ok_bind, hS, hT, hA, vsub_ok h1, vsub_ok h2',
    vsub_ok h2, vsub_ok h3, vsub_ok h4, PyM.len, addPrefix_ok _ _ h5]
  have hlen : (List.zipWith (· - ·) (List.zipWith (· - ·) (PySep.vneg sT) (List.zipWith (· - ·) pT sT))
      (List.zipWith (· - ·) (List.zipWith (· - ·) pA sT) (List.zipWith (· - ·) pT sT))).length = sT.length := by
    simp [PySep.vneg]; omega
  rw [hlen]
  rfl

/-- HEADLINE (exact decomposition identity, on the translated definition): whatever `_project` returns (of the right
    length), the four components `_bss_decomp_mtifilt` returns sum, sample by sample, to the zero-padded estimate. -/
theorem gen_decomp_components_sum (refs : List (List Rat)) (est r pT pA : List Rat) (j flen : Nat)
    (proj : List (List Rat) → List Rat → Nat → Py (List Rat))
    (hj : refs[j]? = some r) (hf : 1 ≤ flen)
    (hT : proj [r] est flen = .ok pT) (hA : proj refs est flen = .ok pA)
    (hlT : pT.length = r.length + (flen - 1)) (hlA : pA.length = r.length + (flen - 1))
    (hle : est.length ≤ r.length + (flen - 1)) :
    ∃ sTrue eSpat eInterf eArtif, Gen.separation._bss_decomp_mtifilt refs est j flen proj
        = .ok (sTrue, eSpat, eInterf, eArtif) ∧
      sTrue = r ++ List.replicate (flen - 1) 0 ∧
      ((⟨sTrue⟩ + ⟨eSpat⟩ + ⟨eInterf⟩ + ⟨eArtif⟩ : Sig)).xs = padTo (r.length + (flen - 1)) est := by
  refine ⟨_, _, _, _, decomp_mtifilt_eq_model refs est r pT pA j flen proj hj hf hT hA hlT hlA hle, rfl, ?_⟩
  have hs : (r ++ List.replicate (flen - 1) (0 : Rat)).length = r.length + (flen - 1) := by simp
  have := decomp_sums_exec (r ++ List.replicate (flen - 1) 0) pT pA est (by omega) (by omega)
  rw [hs] at this
  rw [this]
  apply List.take_of_length_le
  simp [padTo]; omega

/-- the exceptions of the arithmetic: a target index out of range is an `IndexError` … -/
theorem decomp_mtifilt_index_error (refs : List (List Rat)) (est : List Rat) (j flen : Nat)
    (proj : List (List Rat) → List Rat → Nat → Py (List Rat)) (hj : refs.length ≤ j) :
    Gen.separation._bss_decomp_mtifilt refs est j flen proj = .error .indexError := by
  have : refs[j]? = none := by simp [hj]
  simp [Gen.separation._bss_decomp_mtifilt, PySep.row, this, error_bind]

/-- … and `flen = 0` is the `ValueError` of `np.zeros(-1)`. -/
theorem decomp_mtifilt_flen_zero (refs : List (List Rat)) (est : List Rat) (j : Nat)
    (proj : List (List Rat) → List Rat → Nat → Py (List Rat)) (hj : j < refs.length) :
    Gen.separation._bss_decomp_mtifilt refs est j 0 proj = .error .valueError := by
  have : refs[j]? = some refs[j] := by simp [hj]
  simp [Gen.separation._bss_decomp_mtifilt, PySep.row, this, PySep.zeros, ok_bind] <;> try rfl

/-! ## 3. silence, validation -/

/-- `_any_source_silent` as translated: the model's `anySourceSilent` on an array with at least two axes, the
    `AxisError` (a `ValueError`) of `np.all(., axis=1)` otherwise. -/
theorem any_source_silent_eq_model (a : Separation.Arr) :
    Gen.separation._any_source_silent a
      = if a.shape.length < 2 then .error .valueError else .ok (anySourceSilent a) := by
  unfold Gen.separation._any_source_silent
  by_cases h : a.shape.length < 2
  · have : min a.shape.length 2 < 2 := by omega
    simp [PySep.allAxis1, PySep.sumTrailingEqZero, h, this, error_bind]
  · have : ¬ min a.shape.length 2 < 2 := by omega
    simp only [PySep.allAxis1, PySep.sumTrailingEqZero, h, this, if_false, ok_bind]
    simp [PySep.anyB, anySourceSilent, List.any_map, List.all_map, Function.comp_def]
    rfl

theorem prodL_eq_foldl (l : List Nat) (k : Nat) : l.foldl (· * ·) k = k * Mir.Arr.prodL l := by
  induction l generalizing k with
  | nil => simp [Mir.Arr.prodL]
  | cons a t ih => simp [Mir.Arr.prodL, ih, Nat.mul_assoc]

theorem srcOf_size (a : Separation.Arr) : (PySep.srcOf a).size = a.size := by
  simp [PySep.srcOf, Mir.Validate.Src.size, Separation.Arr.size, prodL_eq_foldl]

/-- the validator GENERATED from the source (`Mir.GenV.separation.validate`, part `validators`, C14) on what it looks at
    = the separation model's `validate`, for all arrays. -/
theorem validate_eq_model (r e : Separation.Arr) :
    GenV.separation.validate (PySep.srcOf r) (PySep.srcOf e) = validate r e := by
  rw [Mir.C14.GenVal.separation_validate_eq_model]
  have hr := srcOf_size r
  have he := srcOf_size e
  obtain ⟨rs, rd⟩ := r
  obtain ⟨es, ed⟩ := e
  unfold Mir.Validate.separationValidate Mir.Validate.silentCheck validate
  simp only [hr, he]
  simp only [PySep.srcOf, Mir.Validate.Src.ndim, Mir.Validate.Src.shape0, Mir.Validate.anySourceSilent, Mir.Validate.check,
    anySourceSilent, MAX_SOURCES, Mir.Validate.maxSources, bind, Except.bind, throw, throwThe, MonadExceptOf.throw, pure,
    Except.pure]
  by_cases h1 : rs = es
  · subst h1
    rcases rs with _ | ⟨n, t⟩
    · simp [Separation.Arr.size]
    · simp only [Separation.Arr.size]
      have e1 : ∀ d : List (List (List Rat)), (List.map (fun src => src.all fun samp => decide (samp.sum = 0)) d).any id
          = d.any fun src => src.all fun samp => decide (samp.sum = 0) := by
        intro d; simp [List.any_map, Function.comp_def]
      rw [e1, e1]
      simp only [List.length_cons]
      by_cases hA : 3 < t.length + 1
      · simp [hA]
      · by_cases hB : List.foldl (fun x1 x2 => x1 * x2) n t = 0
        · by_cases h8 : 100 < n <;> simp [hA, hB, h8]
        · by_cases hC : t.length + 1 < 2
          · simp [hA, hB, hC]
          · by_cases hD : (rd.any fun src => src.all fun samp => decide (samp.sum = 0)) = true <;>
            by_cases hE : (ed.any fun src => src.all fun samp => decide (samp.sum = 0)) = true <;>
            by_cases h8 : 100 < n <;> simp [hA, hB, hC, h8, hD, hE] <;> simp_all
  · simp [h1]

/-! ## 4. the selection glue of `bss_eval_sources` (the numerical kernel is a pair of extern parameters) -/

theorem mapM_ok {α β : Type} (l : List α) (f : α → Py β) (g : α → β) (h : ∀ x ∈ l, f x = .ok (g x)) :
    l.mapM f = .ok (l.map g) := by
  induction l with
  | nil => rfl
  | cons a t ih =>
    rw [List.mapM_cons, h a (by simp), ih (fun x hx => h x (by simp [hx]))]
    rfl

theorem forRange_ok {α : Type} (n : Nat) (f : Nat → Py α) (g : Nat → α) (h : ∀ i < n, f i = .ok (g i)) :
    PySep.forRange n f = .ok ((List.range n).map g) :=
  mapM_ok _ f g (fun x hx => h x (List.mem_range.mp hx))

theorem forRange2_ok {α : Type} (n m : Nat) (f : Nat → Nat → Py α) (g : Nat → Nat → α)
    (h : ∀ i < n, ∀ j < m, f i j = .ok (g i j)) :
    PySep.forRange2 n m f = .ok ((List.range n).map fun i => (List.range m).map (g i)) :=
  mapM_ok _ _ _ (fun i hi => mapM_ok _ _ _ (fun j hj => h i (List.mem_range.mp hi) j (List.mem_range.mp hj)))

theorem forEnumFrom_ok {α β : Type} (f : Nat → α → Py β) (g : α → β) (xs : List α)
    (h : ∀ k, ∀ x ∈ xs, f k x = .ok (g x)) (i : Nat) : PySep.forEnumFrom f i xs = .ok (xs.map g) := by
  induction xs generalizing i with
  | nil => rfl
  | cons a t ih =>
    rw [PySep.forEnumFrom, h i a (by simp), ok_bind, ih (fun k x hx => h k x (by simp [hx]))]
    rfl

/-- the table a fill loop wrote, as a function of the indices -/
def tabOf (n : Nat) (M : Nat → Nat → Rat) : List (List Rat) :=
  (List.range n).map fun e => (List.range n).map fun t => M e t

theorem at2_tabOf (n : Nat) (M : Nat → Nat → Rat) (e t : Nat) (he : e < n) (ht : t < n) :
    PySep.at2 (tabOf n M) e t = .ok (M e t) := by
  simp [PySep.at2, tabOf, he, ht]

theorem fancy2_tabOf (n : Nat) (M : Nat → Nat → Rat) (p : List Nat) (j : Nat)
    (hp : ∀ e ∈ p, e < n) (hj : j + p.length ≤ n) :
    PySep.fancy2 (tabOf n M) p (List.range' j p.length) = .ok (selectFrom M j p) := by
  induction p generalizing j with
  | nil => rfl
  | cons e es ih =>
    have h1 : e < n := hp e (by simp)
    have h2 : j < n := by simp at hj; omega
    simp only [List.length_cons, List.range'_succ, PySep.fancy2, at2_tabOf n M e j h1 h2, ok_bind]
    rw [ih (j + 1) (fun x hx => hp x (by simp [hx])) (by simp at hj; omega)]
    rfl

theorem selectFrom_sum (S : Nat → Nat → Rat) (p : List Nat) (j : Nat) :
    (selectFrom S j p).sum = scoreFrom S j p := by
  induction p generalizing j with
  | nil => rfl
  | cons e es ih => simp [selectFrom, scoreFrom, ih]

theorem selectFrom_length (S : Nat → Nat → Rat) (p : List Nat) (j : Nat) : (selectFrom S j p).length = p.length := by
  induction p generalizing j with
  | nil => rfl
  | cons e es ih => simp [selectFrom, ih]

theorem mean_selectFrom (S : Nat → Nat → Rat) (p : List Nat) :
    PySep.mean (selectFrom S 0 p) = meanSir p.length S p := by
  simp [PySep.mean, meanSir, score, selectFrom_sum, selectFrom_length]

theorem argmaxAux_spec {α : Type} (f : α → Rat) (all : List α) :
    ∀ (rest : List α) (b : α) (bi i : Nat), all[bi]? = some b → all.drop i = rest →
      all[PySep.argmaxAux (f b) bi i (rest.map f)]? = some (firstMaxBy f b rest) := by
  intro rest
  induction rest with
  | nil => intro b bi i hb _; simpa [PySep.argmaxAux, firstMaxBy] using hb
  | cons x xs ih =>
    intro b bi i hb hd
    have hx : all[i]? = some x := by
      have := congrArg List.head? hd
      simpa [List.head?_drop] using this
    have hd' : all.drop (i + 1) = xs := by
      have := congrArg List.tail hd
      simpa [List.tail_drop] using this
    simp only [List.map_cons, PySep.argmaxAux, firstMaxBy]
    split
    · exact ih x i (i + 1) hx hd'
    · exact ih b bi (i + 1) hb hd'

/-- `perms[np.argmax([f(p) for p in perms])]` is the model's first maximiser. -/
theorem getItem_argmax {α : Type} (f : α → Rat) (p : α) (ps : List α) :
    (PySep.argmax ((p :: ps).map f) >>= fun k => PySep.getItem (p :: ps) k) = .ok (firstMaxBy f p ps) := by
  have := argmaxAux_spec f (p :: ps) ps p 0 1 rfl rfl
  simp only [List.map_cons, PySep.argmax, ok_bind, PySep.getItem, this]

/-- the four outputs of the translated `bss_eval_sources` as the model lists them (`perm` as floats) -/
def outList (x : List Rat × List Rat × List Rat × List Nat) : List (List Rat) :=
  [x.1, x.2.1, x.2.2.1, x.2.2.2.map fun (e : Nat) => (e : Rat)]

/-- the model's result as a list of vectors (`k` empty arrays for the empty special case) -/
def flatOut : Out → List (List Rat)
  | .empties k => List.replicate k []
  | .vecs vs => vs
  | .mats _ => []

theorem promote2_eq (a : Separation.Arr) :
    (if decide (PySep.ndim a = 1) = true then PySep.newaxis0 a else a) = promote2 a := by
  unfold promote2 PySep.ndim PySep.newaxis0
  by_cases h : a.shape.length = 1 <;> simp [h]

theorem validate_shape_ne_nil (R E : Separation.Arr) (hv : validate R E = .ok ()) : E.shape ≠ [] := by
  intro h
  unfold validate at hv
  by_cases h1 : R.shape = E.shape
  · simp [h1, h, Separation.Arr.size, bind, Except.bind, throw, throwThe, MonadExceptOf.throw] at hv
  · simp [h1, bind, Except.bind, throw, throwThe, MonadExceptOf.throw] at hv

theorem selectFrom_diag (M : Nat → Nat → Rat) (k j : Nat) :
    selectFrom M j (List.range' j k) = (List.range' j k).map fun i => M i i := by
  induction k generalizing j with
  | zero => rfl
  | succ k ih => simp [List.range'_succ, selectFrom, ih]

theorem tab2_tabOf (n : Nat) (C : Nat → Nat → Nat → Rat) (o : Nat) (ho : o < 3) :
    PySep.tab2 ((List.range n).map fun e => (List.range n).map fun t => [C e t 0, C e t 1, C e t 2]) o
      = tabOf n (fun e t => C e t o) := by
  have : o = 0 ∨ o = 1 ∨ o = 2 := by omega
  rcases this with rfl | rfl | rfl <;> simp [PySep.tab2, tabOf, List.map_map, Function.comp_def]

theorem mem_perms_range (n : Nat) (p : List Nat) (hp : p ∈ perms (List.range n)) :
    p.length = n ∧ ∀ e ∈ p, e < n := by
  have h := (perms_are_the_permutations (List.range n) p).mp hp
  refine ⟨by simpa using h.length_eq, fun e he => ?_⟩
  have := h.mem_iff.mp he
  simpa using this

theorem fancy2_perm (n : Nat) (M : Nat → Nat → Rat) (p : List Nat) (hp : p ∈ perms (List.range n)) :
    PySep.fancy2 (tabOf n M) p (List.range n) = .ok (selectFrom M 0 p) := by
  obtain ⟨hl, hlt⟩ := mem_perms_range n p hp
  have := fancy2_tabOf n M p 0 hlt (by omega)
  rwa [hl, ← List.range_eq_range'] at this

/-- `bss_eval_sources` as translated = the model's `bssEvalSources`, for ALL arrays (1-D promoted, empty, invalid) and
    both values of `compute_permutation`, whenever the kernel (the two extern parameters, run on estimate `e` against
    reference `t`) returns the criteria `C e t ·`. -/
theorem bss_eval_sources_eq_model {σ : Type} (ref est : Separation.Arr) (cp : Bool)
    (dec : Separation.Arr → List (List Rat) → Nat → Nat → Py (σ × σ × σ × σ))
    (crit : σ → σ → σ → σ → Py (Rat × Rat × Rat)) (C : Nat → Nat → Nat → Rat)
    (hK : ∀ e t, e < (promote2 est).shape.headD 0 → t < (promote2 est).shape.headD 0 →
      ∃ row c, (promote2 est).data[e]? = some row ∧ dec (promote2 ref) row t 512 = .ok c ∧
        crit c.1 c.2.1 c.2.2.1 c.2.2.2 = .ok (C e t 0, C e t 1, C e t 2)) :
    (Gen.separation.bss_eval_sources ref est cp dec crit).map outList
      = (bssEvalSources C ref est cp).map flatOut := by
  unfold Gen.separation.bss_eval_sources bssEvalSources
  simp only [promote2_eq, validate_eq_model]
  generalize promote2 est = E at *
  generalize promote2 ref = R at *
  cases hv : validate R E with
  | error err => rfl
  | ok u =>
    simp only [ok_bind]
    by_cases hz : R.size = 0 ∨ E.size = 0
    · have : (decide (R.size = 0) || decide (E.size = 0)) = true := by simpa using hz
      simp only [this, if_true, hz]
      rfl
    · have hz' : (decide (R.size = 0) || decide (E.size = 0)) = false := by simpa using hz
      simp only [hz', hz, if_false, Bool.false_eq_true]
      obtain ⟨n, t, hs⟩ : ∃ n t, E.shape = n :: t := by
        rcases h : E.shape with _ | ⟨n, t⟩
        · exact absurd h (validate_shape_ne_nil R E hv)
        · exact ⟨n, t, rfl⟩
      have hsh : PySep.shapeAt E 0 = .ok n := by simp [PySep.shapeAt, hs]
      have hn : E.shape.headD 0 = n := by simp [hs]
      rw [hn] at hK ⊢
      simp only [hsh, ok_bind]
      have hbody : ∀ e t, e < n → t < n →
          (do let r ← PySep.arrRow E e
              let c ← dec R r t 512
              let k ← crit c.1 c.2.1 c.2.2.1 c.2.2.2
              pure [k.1, k.2.1, k.2.2] : Py (List Rat)) = .ok [C e t 0, C e t 1, C e t 2] := by
        intro e t he ht
        obtain ⟨row, c, h1, h2, h3⟩ := hK e t he ht
        simp only [PySep.arrRow, h1, ok_bind, h2, h3]
        rfl
      cases cp with
      | false =>
        simp only [Bool.false_eq_true, if_false]
        rw [forRange_ok n _ (fun j => [C j j 0, C j j 1, C j j 2]) (fun j hj => hbody j j hj hj)]
        simp only [ok_bind, selectOutputs, Bool.false_eq_true, if_false]
        simp [outList, flatOut, PySep.tab1, List.map_map, Function.comp_def, Except.map, pure, Except.pure,
          List.range_succ, List.range_eq_range', selectFrom_diag]
      | true =>
        simp only [if_true]
        rw [forRange2_ok n n _ (fun e t => [C e t 0, C e t 1, C e t 2]) (fun e he t ht => hbody e t he ht)]
        simp only [ok_bind, tab2_tabOf n C _ (by decide : 0 < 3), tab2_tabOf n C _ (by decide : 1 < 3),
          tab2_tabOf n C _ (by decide : 2 < 3), PySep.permutations, PySep.forEnum]
        rw [forEnumFrom_ok _ (fun perm => [meanSir n (fun e t => C e t 1) perm]) _ (by
          intro k perm hp
          rw [fancy2_perm n _ perm hp, ok_bind, mean_selectFrom, (mem_perms_range n perm hp).1]
          rfl)]
        simp only [ok_bind]
        obtain ⟨p, ps, hps⟩ : ∃ p ps, perms (List.range n) = p :: ps := by
          rcases h : perms (List.range n) with _ | ⟨p, ps⟩
          · exact absurd h (perms_range_ne_nil n)
          · exact ⟨p, ps, rfl⟩
        have hbest : bestPerm n (fun e t => C e t 1) = firstMaxBy (meanSir n fun e t => C e t 1) p ps := by
          simp [bestPerm, hps]
        have hmem := bestPerm_mem n (fun e t => C e t 1)
        have htab : PySep.tab1 ((perms (List.range n)).map fun perm => [meanSir n (fun e t => C e t 1) perm]) 0
            = (p :: ps).map (meanSir n fun e t => C e t 1) := by
          simp [PySep.tab1, hps, List.map_map, Function.comp_def]
        rw [htab]
        have hgi : PySep.getItem (p :: ps) (PySep.argmaxAux (meanSir n (fun e t => C e t 1) p) 0 1
            (ps.map (meanSir n fun e t => C e t 1))) = .ok (firstMaxBy (meanSir n fun e t => C e t 1) p ps) := by
          simp only [PySep.getItem, argmaxAux_spec (meanSir n fun e t => C e t 1) (p :: ps) ps p 0 1 rfl rfl]
        rw [hps]
        simp only [List.map_cons, PySep.argmax, ok_bind, hgi, ← hbest, fancy2_perm n _ _ hmem]
        simp [outList, flatOut, selectOutputs, Except.map, pure, Except.pure, List.range_succ]

theorem outList_injective : Function.Injective outList := by
  rintro ⟨a, b, c, p⟩ ⟨a', b', c', p'⟩ h
  simp only [outList, List.cons.injEq, and_true] at h
  obtain ⟨h1, h2, h3, h4⟩ := h
  have : p = p' := List.map_injective_iff.mpr (fun x y hxy => by exact_mod_cast hxy) h4
  simp [h1, h2, h3, this]

/-- HEADLINE (on the translated `bss_eval_sources`, valid non-empty input, kernel returning `C`): the four outputs are
    the criteria selected along `popt`, where `popt` is the identity without `compute_permutation` and otherwise a
    PERMUTATION of `0 … nsrc-1` that MAXIMISES the mean SIR (the first such in `itertools.permutations` order). -/
theorem gen_bss_eval_sources_headline {σ : Type} (ref est : Separation.Arr) (cp : Bool)
    (dec : Separation.Arr → List (List Rat) → Nat → Nat → Py (σ × σ × σ × σ))
    (crit : σ → σ → σ → σ → Py (Rat × Rat × Rat)) (C : Nat → Nat → Nat → Rat)
    (hv : validate (promote2 ref) (promote2 est) = .ok ())
    (hne : ¬ ((promote2 ref).size = 0 ∨ (promote2 est).size = 0))
    (hK : ∀ e t, e < (promote2 est).shape.headD 0 → t < (promote2 est).shape.headD 0 →
      ∃ row c, (promote2 est).data[e]? = some row ∧ dec (promote2 ref) row t 512 = .ok c ∧
        crit c.1 c.2.1 c.2.2.1 c.2.2.2 = .ok (C e t 0, C e t 1, C e t 2)) :
    ∃ popt : List Nat,
      Gen.separation.bss_eval_sources ref est cp dec crit
        = .ok (selectFrom (fun e t => C e t 0) 0 popt, selectFrom (fun e t => C e t 1) 0 popt,
               selectFrom (fun e t => C e t 2) 0 popt, popt) ∧
      popt.Perm (List.range ((promote2 est).shape.headD 0)) ∧
      (cp = false → popt = List.range ((promote2 est).shape.headD 0)) ∧
      (cp = true → ∀ q : List Nat, q.Perm (List.range ((promote2 est).shape.headD 0)) →
        meanSir ((promote2 est).shape.headD 0) (fun e t => C e t 1) q
          ≤ meanSir ((promote2 est).shape.headD 0) (fun e t => C e t 1) popt) := by
  have h := bss_eval_sources_eq_model ref est cp dec crit C hK
  unfold bssEvalSources at h
  simp only [hv, ok_bind, hne, if_false] at h
  generalize (promote2 est).shape.headD 0 = n at *
  refine ⟨if cp then bestPerm n (fun e t => C e t 1) else List.range n, ?_, ?_, ?_, ?_⟩
  · cases hG : Gen.separation.bss_eval_sources ref est cp dec crit with
    | error err => rw [hG] at h; exact absurd h (by simp [Except.map, pure, Except.pure])
    | ok x =>
      rw [hG] at h
      have h' : outList x = selectOutputs 3 1 n C cp := by
        simpa [Except.map, pure, Except.pure, flatOut] using h
      congr 1
      apply outList_injective
      rw [h']
      simp [outList, selectOutputs, List.range_succ]
  · cases cp
    · simp
    · simpa using bestPerm_is_perm n _
  · intro hc; simp [hc]
  · intro hc q hq; simp only [hc, if_true]; exact bestPerm_max n _ q hq

example : Gen.separation._safe_db 1 0 = .ok .posInf ∧ Gen.separation._safe_db 3 4 = .ok (.ofRatio (3 / 4)) := by
  refine ⟨by rw [safe_db_eq_model]; rfl, by rw [safe_db_eq_model]; rfl⟩

end Mir.C19.Gen
