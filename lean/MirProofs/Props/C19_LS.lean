import MirProofs.Lemmas.SeparationLS
import MirProofs.Lemmas.SeparationLSAny
import MirProofs.Lemmas.SeparationDb
import Mathlib.Data.List.Forall2
import MirProofs.Props.C19
/-!
  C19 (exact least-squares projection) — DESIGN §5 C19, deepening.

  `MirModel/SeparationLS.lean` is an exact rational model of `mir_eval.separation._project` (Gram matrix of the
  delayed references, Gaussian elimination, projected signal), of `_bss_decomp_mtifilt` and `_bss_source_crit`
  on it.  Here, for ALL inputs (any number of sources, any signal length, any filter length):
    * `solve?` (Gaussian elimination) is sound, its result is the unique solution, and it succeeds exactly on
      the square matrices with trivial kernel;
    * `_project` satisfies the normal equations (residual ⟂ every delayed reference), lies in the span,
      minimises the squared error over the span, is homogeneous in the estimate, is unchanged by rescaling
      references, is idempotent on the span;
    * hence the abstract C19 theorems (`decomp_sums_exec`, `source_crit_scale_est`, `source_crit_scale_ref`,
      `perfect_estimate_sources`) apply to the concrete model with NO hypothesis on the projection: the
      corollaries `sourceCritExact_scale_est`, `sourceCritExact_scale_refs`, `sourceCritExact_perfect`.
  The only side conditions left are the well-formedness of the input (`WF`: `flen ≥ 1`, references as long as
  the estimate, valid source index — the domain of the driver op) and, where a value is asserted, that the Gram
  matrices are non-singular (`solve?` succeeded).
    * the singular branch (`except LinAlgError: lstsq`, model `solveAny?` / `projectAny`) needs NO such condition:
      normal equations are always consistent and elimination with free unknowns set to 0 solves every consistent
      system, so `projectAny` is total, satisfies the normal equations and minimises the squared error
      (`solveAny_isSome_iff`, `normal_equations_consistent`, `solveAny_normal_equations`, `projectAny_total`,
      `projectAny_least_squares`).
-/
namespace Mir.C19.LS
open Mir Mir.Separation Mir.SeparationLS

/-! ## 1. Gaussian elimination -/

/-- SOUNDNESS: `solve? A b = some x → A·x = b`. -/
theorem solve_sound (A : List (List Rat)) (b x : List Rat) (hb : b.length = A.length)
    (h : solve? A b = some x) : x.length = A.length ∧ mulVec A x = b := by
  obtain ⟨h1, h2⟩ := solveRows_sound _ _ _ h
  refine ⟨h1, ?_⟩
  apply List.ext_getElem
  · simp [mulVec, hb]
  · intro i hi1 hi2
    simp only [mulVec, List.length_map] at hi1
    have := h2 (A[i], b[i]) (mem_zip_iff.2 ⟨i, hi1, hi2, rfl⟩)
    simpa [mulVec] using this

/-- UNIQUENESS: when `solve?` succeeds its result is the only solution. -/
theorem solve_unique (A : List (List Rat)) (b x y : List Rat)
    (h : solve? A b = some x) (hy : y.length = A.length) (hy2 : mulVec A y = b) : y = x := by
  have hb : b.length = A.length := by rw [← hy2]; simp [mulVec]
  obtain ⟨h1, h2⟩ := solveRows_sound _ _ _ h
  apply solveRows_inj _ _ _ h y x hy h1
  intro r hr
  obtain ⟨i, hi1, hi2, rfl⟩ := mem_zip_iff.1 hr
  rw [h2 _ hr]
  have : (mulVec A y)[i]'(by simp [mulVec, hi1]) = b[i] := by simp [hy2]
  simpa [mulVec] using this

/-- COMPLETENESS: on a square system `solve?` succeeds exactly when the matrix has a trivial kernel — whatever
    the right-hand side. -/
theorem solve_isSome_iff (A : List (List Rat)) (b : List Rat) (hb : b.length = A.length) :
    (solve? A b).isSome ↔ Nonsingular A := by
  unfold solve?
  rw [solveRows_isSome_iff _ _ (by simp [hb]), kerTrivial_zip A b hb]

example : solve? [[2, 1], [1, 3]] [3, 5] = some [4/5, 7/5] ∧ solve? [[0, 1], [1, 0]] [3, 5] = some [5, 3] ∧
    solve? [[1, 2], [2, 4]] [1, 2] = none := by
  refine ⟨?_, ?_, ?_⟩ <;> decide +kernel

/-! ## 2. the projection `_project` -/

/-- NORMAL EQUATIONS: the residual of `_project` is orthogonal to every delayed reference. -/
theorem project_normal_equations (refs : List (List Rat)) (est : List Rat) (flen : Nat) (p : List Rat)
    (h : project refs est flen = some p) :
    ∀ r ∈ refs, ∀ d < flen,
      dot (delayed ((refs.headD []).length + flen - 1) d r) (vsub (est ++ zeros (flen - 1)) p) = 0 := by
  intro r hr d hd
  rw [project_eq] at h
  obtain ⟨x, -, h2, -, rfl⟩ := (projectOn_eq_some_iff _ _ _).1 h
  have := h2 _ (mem_basis.2 ⟨r, hr, d, hd, rfl⟩)
  rw [dot_vsub_right, this, dot_comm]; ring

/-- The result lies in the span of the delayed references (and has `N = nsampl + flen − 1` samples). -/
theorem project_in_span (refs : List (List Rat)) (est : List Rat) (flen : Nat) (p : List Rat)
    (h : project refs est flen = some p) :
    ∃ c : List Rat, c.length = refs.length * flen ∧
      p = lincomb c (basis ((refs.headD []).length + flen - 1) flen refs) := by
  rw [project_eq] at h
  obtain ⟨x, hx, -, -, rfl⟩ := (projectOn_eq_some_iff _ _ _).1 h
  exact ⟨x, by rw [hx, length_basis], rfl⟩

/-- LEAST SQUARES: no combination of the delayed references is closer to the (zero-padded) estimate. -/
theorem project_least_squares (refs : List (List Rat)) (est : List Rat) (flen : Nat) (p : List Rat)
    (h : project refs est flen = some p) (c : List Rat) :
    let se := est ++ zeros (flen - 1)
    let q := lincomb c (basis ((refs.headD []).length + flen - 1) flen refs)
    dot (vsub se p) (vsub se p) ≤ dot (vsub se q) (vsub se q) := by
  intro se q
  rw [project_eq] at h
  obtain ⟨x, -, h2, -, rfl⟩ := (projectOn_eq_some_iff _ _ _).1 h
  set B := basis ((refs.headD []).length + flen - 1) flen refs
  have hcong : ∀ y, dot se (lincomb y B) = dot (lincomb x B) (lincomb y B) := fun y =>
    dot_lincomb_congr _ _ y B (fun u hu => by rw [dot_comm se u, dot_comm (lincomb x B) u, h2 u hu, dot_comm])
  have e1 := hcong x
  have e2 := hcong c
  have hnn := dot_self_nonneg (vsub (lincomb x B) q)
  simp only [dot_vsub_left, dot_vsub_right] at hnn ⊢
  have c1 : dot (lincomb x B) se = dot se (lincomb x B) := dot_comm _ _
  have c2 : dot q se = dot se q := dot_comm _ _
  have c3 : dot q (lincomb x B) = dot (lincomb x B) q := dot_comm _ _
  show dot se se - dot (lincomb x B) se - (dot se (lincomb x B) - dot (lincomb x B) (lincomb x B)) ≤
    dot se se - dot q se - (dot se q - dot q q)
  rw [c1, c2]
  rw [c3] at hnn
  have e2' : dot se q = dot (lincomb x B) q := e2
  linarith

/-- HOMOGENEITY in the estimate: `_project(refs, c·est) = c·_project(refs, est)` (for every `c`, and
    singularity does not depend on the estimate). -/
theorem project_homogeneous (refs : List (List Rat)) (est : List Rat) (flen : Nat) (c : Rat) :
    project refs (vscale c est) flen = (project refs est flen).map (vscale c) :=
  project_vscale refs est flen c

/-- SPAN-DEPENDENCE: multiplying every reference by its own non-zero factor does not change the projection. -/
theorem project_scale_refs_invariant (cs : List Rat) (refs : List (List Rat)) (est : List Rat) (flen : Nat)
    (hl : cs.length = refs.length) (hc : ∀ c ∈ cs, c ≠ 0) :
    project (List.zipWith vscale cs refs) est flen = project refs est flen :=
  project_scale_refs cs refs est flen hl hc

/-- … in particular multiplying ONE reference by `c ≠ 0`. -/
theorem project_scale_ref_invariant (refs : List (List Rat)) (est : List Rat) (flen i : Nat) (c : Rat)
    (hc : c ≠ 0) : project (refs.modify i (vscale c)) est flen = project refs est flen := by
  rw [modify_vscale_eq_zipWith]
  exact project_scale_refs _ _ _ _ (by simp) (set_replicate_one_ne_zero _ _ _ hc)

/-- Whether the Gram matrix is singular depends on the references only. -/
theorem project_isSome_iff (refs : List (List Rat)) (est : List Rat) (flen : Nat) :
    (project refs est flen).isSome ↔ Indep (basis ((refs.headD []).length + flen - 1) flen refs) := by
  rw [project_eq, projectOn_isSome_iff]

/-- IDEMPOTENCE on the span: an estimate that is (after zero padding) a combination of the delayed references
    is returned unchanged. -/
theorem project_idempotent (refs : List (List Rat)) (est est' : List Rat) (flen : Nat) (c : List Rat)
    (hns : (project refs est' flen).isSome) (hc : c.length = refs.length * flen)
    (hspan : est ++ zeros (flen - 1) = lincomb c (basis ((refs.headD []).length + flen - 1) flen refs)) :
    project refs est flen = some (est ++ zeros (flen - 1)) := by
  rw [project_isSome_iff] at hns
  rw [project_eq, hspan]
  exact projectOn_lincomb _ c (by rw [hc, length_basis]) hns

/-- A reference is its own projection (on any reference set that contains it). -/
theorem project_reference (refs : List (List Rat)) (r est' : List Rat) (flen : Nat) (hflen : 1 ≤ flen)
    (hr : r ∈ refs) (hlen : r.length = (refs.headD []).length) (hns : (project refs est' flen).isSome) :
    project refs r flen = some (r ++ zeros (flen - 1)) := by
  rw [project_isSome_iff] at hns
  rw [project_eq]
  have hmem : r ++ zeros (flen - 1) ∈ basis ((refs.headD []).length + flen - 1) flen refs := by
    apply mem_basis.2
    refine ⟨r, hr, 0, by omega, ?_⟩
    rw [delayed_zero _ _ (by omega)]
    congr 2; omega
  exact projectOn_mem _ _ _ (fun b hb => length_of_mem_basis hb) hmem hns

example : project [[1, 2, 0, -1], [0, 1, 1, 3]] [2, 1, 0, 5] 2 = some [31/76, 131/76, -11/38, 369/76, 11/76] ∧
    project [[1, 2, 0, -1], [0, 1, 1, 3]] [4, 2, 0, 10] 2 = some [31/38, 131/38, -11/19, 369/38, 11/38] ∧
    project [[1, 2, 0, -1], [0, -2, -2, -6]] [2, 1, 0, 5] 2 = some [31/76, 131/76, -11/38, 369/76, 11/76] ∧
    project [[1, 2, 0, -1], [1, 2, 0, -1]] [2, 1, 0, 5] 2 = none := by
  refine ⟨?_, ?_, ?_, ?_⟩ <;> decide +kernel

/-! ## 3. the abstract C19 theorems instantiated at the exact projection -/

/-- The exact projections form a `Proj` that is homogeneous on EVERY signal: the hypotheses `hT`, `hA` of
    `Mir.C19.source_crit_scale_est` hold for it unconditionally. -/
theorem exactProj_homogeneous (N : ℕ) (BT BA : List (List Rat)) (c : ℚ) (f : ℕ → ℚ) :
    (exactProj N BT BA).onTarget (c • f) = c • (exactProj N BT BA).onTarget f ∧
      (exactProj N BT BA).onAll (c • f) = c • (exactProj N BT BA).onAll f := by
  simp only [exactProj, ofFun_smul, projectOn_vscale, toFun_getD_map_vscale, and_self]

/-- The model's source criteria ARE the abstract criteria (`Mir.Separation.sourceCrit` of `decompP`) of the
    decomposition around `exactProj`, on signals-as-functions with the energy of the first `N` samples. -/
theorem sourceCritExact_eq_abstract (refs : List (List Rat)) (est : List Rat) (j flen : Nat)
    (hwf : WF refs est j flen) (hns : (sourceCritExact refs est j flen).isSome) :
    sourceCritExact refs est j flen = some (sourceCrit (energyN (est.length + flen - 1))
      (decompP (exactProj (est.length + flen - 1) (basis (est.length + flen - 1) flen [refs.getD j []])
          (basis (est.length + flen - 1) flen refs))
        (toFun (refs.getD j [] ++ zeros (flen - 1))) (toFun (est ++ zeros (flen - 1))))) :=
  sourceCritWith_eq_abstract _ refs est flen hwf.flen_pos hwf.target_len hwf.head_len hwf.ne_nil hns

/-- `decomp_sums` at the exact model: the four components add up to the zero-padded estimate. -/
theorem decompExact_sums (refs : List (List Rat)) (est : List Rat) (j flen : Nat) (d : Decomp Sig)
    (hwf : WF refs est j flen) (h : decompExact refs est j flen = some d) :
    (d.sTrue + d.eSpat + d.eInterf + d.eArtif).xs = est ++ zeros (flen - 1) :=
  decompWith_sums _ refs est flen d hwf.flen_pos hwf.target_len hwf.head_len hwf.ne_nil h

/-- SCALE INVARIANCE (estimate): SDR, SIR, SAR of the exact model do not change when the estimate is multiplied
    by `c ≠ 0` — `source_crit_scale_est` with its homogeneity hypotheses discharged. -/
theorem sourceCritExact_scale_est (refs : List (List Rat)) (est : List Rat) (j flen : Nat) (c : Rat)
    (hc : c ≠ 0) (hwf : WF refs est j flen) :
    sourceCritExact refs (vscale c est) j flen = sourceCritExact refs est j flen := by
  have hwf' : WF refs (vscale c est) j flen := ⟨hwf.flen_pos, fun r hr => by simp [hwf.len r hr], hwf.hj⟩
  have hsome : (sourceCritExact refs (vscale c est) j flen).isSome = (sourceCritExact refs est j flen).isSome := by
    rw [sourceCritExact_eq_with, sourceCritExact_eq_with, sourceCritWith_isSome, sourceCritWith_isSome,
      project_vscale, project_vscale, Option.isSome_map, Option.isSome_map]
  cases hns : (sourceCritExact refs est j flen).isSome with
  | false =>
    rw [hns] at hsome
    rw [Option.isSome_eq_false_iff, Option.isNone_iff_eq_none] at hns hsome
    rw [hns, hsome]
  | true =>
    rw [hns] at hsome
    rw [sourceCritExact_eq_abstract refs est j flen hwf hns,
      sourceCritExact_eq_abstract refs (vscale c est) j flen hwf' hsome]
    simp only [length_vscale, append_zeros_vscale, toFun_vscale]
    congr 1
    exact source_crit_scale_est (energyN _) (energyN_smul _) _ _ _ c hc
      (exactProj_homogeneous _ _ _ c _).1 (exactProj_homogeneous _ _ _ c _).2

/-- SCALE INVARIANCE (references): SDR, SIR, SAR of the exact model do not change when every reference is
    multiplied by its own non-zero factor — the projections depend on the references through their span only
    (`project_scale_refs_invariant`), and the criteria do not look at `s_true` (`source_crit_scale_ref`). -/
theorem sourceCritExact_scale_refs (cs : List Rat) (refs : List (List Rat)) (est : List Rat) (j flen : Nat)
    (hl : cs.length = refs.length) (hc : ∀ c ∈ cs, c ≠ 0) (hwf : WF refs est j flen) :
    sourceCritExact (List.zipWith vscale cs refs) est j flen = sourceCritExact refs est j flen := by
  have hflen := hwf.flen_pos
  have hlj := hwf.target_len
  have hcj : cs.getD j 1 ≠ 0 := by
    rw [List.getD_eq_getElem?_getD]
    by_cases hj : j < cs.length
    · rw [List.getElem?_eq_getElem hj]; exact hc _ (List.getElem_mem hj)
    · rw [List.getElem?_eq_none (not_lt.1 hj)]; exact one_ne_zero
  rw [sourceCritExact_eq_with, sourceCritExact_eq_with, getD_zipWith_vscale cs refs j hl]
  generalize refs.getD j [] = rj at hlj ⊢
  generalize cs.getD j 1 = cj at hcj ⊢
  have hT : project [vscale cj rj] est flen = project [rj] est flen :=
    project_scale_refs [cj] [rj] est flen rfl (by simpa using hcj)
  have hA := project_scale_refs cs refs est flen hl hc
  unfold sourceCritWith decompWith
  rw [hT, hA]
  cases hpT : project [rj] est flen with
  | none => rfl
  | some pT =>
    cases hpA : project refs est flen with
    | none => rfl
    | some pA =>
      obtain ⟨hlT, hlA⟩ := length_projections hflen hlj hwf.head_len hwf.ne_nil hpT hpA
      have hst := length_target rj est flen hflen hlj
      have hst' := length_target (vscale cj rj) est flen hflen (by simp [hlj])
      have hse := length_sePad est flen hflen
      simp only [Option.map_some, Option.some.injEq, decompRow]
      rw [padTo_target rj est _ hlj, padTo_target (vscale cj rj) est _ (by simp [hlj]),
        sourceCrit_transport _ _ _ _ _ hst' hlT hlA hse, sourceCrit_transport _ _ _ _ _ hst hlT hlA hse]
      exact source_crit_scale_ref _ _ _ _ _ _

/-- … in particular when ONE reference is multiplied by `c ≠ 0`. -/
theorem sourceCritExact_scale_ref (refs : List (List Rat)) (est : List Rat) (i j flen : Nat) (c : Rat)
    (hc : c ≠ 0) (hwf : WF refs est j flen) :
    sourceCritExact (refs.modify i (vscale c)) est j flen = sourceCritExact refs est j flen := by
  rw [modify_vscale_eq_zipWith]
  apply sourceCritExact_scale_refs _ _ _ _ _ (by simp) _ hwf
  exact set_replicate_one_ne_zero _ _ _ hc

/-- PERFECT ESTIMATE: if the estimate is the `j`-th reference (and the Gram matrices are non-singular) both
    projections return it, so SDR = SIR = SAR = +inf — `perfect_estimate_sources` with its fixed-point
    hypotheses discharged. -/
theorem sourceCritExact_perfect (refs : List (List Rat)) (j flen : Nat)
    (hwf : WF refs (refs.getD j []) j flen) (hns : (sourceCritExact refs (refs.getD j []) j flen).isSome) :
    sourceCritExact refs (refs.getD j []) j flen = some (.posInf, .posInf, .posInf) := by
  have hflen := hwf.flen_pos
  have hl0 := hwf.head_len
  have hmem : refs.getD j [] ∈ refs := by
    rw [List.getD_eq_getElem?_getD, List.getElem?_eq_getElem hwf.hj]; exact List.getElem_mem _
  rw [sourceCritExact_eq_abstract refs _ j flen hwf hns]
  rw [sourceCritExact_eq_with, sourceCritWith_isSome, Bool.and_eq_true] at hns
  generalize refs.getD j [] = rj at *
  have pT := project_reference [rj] rj _ flen hflen (by simp) (by simp) hns.1
  have pA := project_reference refs rj _ flen hflen hmem hl0.symm hns.2
  congr 1
  have hof : ofFun (rj.length + flen - 1) (toFun (rj ++ zeros (flen - 1))) = rj ++ zeros (flen - 1) := by
    rw [← length_sePad rj flen hflen]; exact ofFun_toFun _
  rw [project_eq] at pT pA
  rw [List.headD_cons] at pT
  rw [hl0] at pA
  apply perfect_estimate_sources (energyN _) (energyN_zero _)
  · simp only [exactProj, hof, pT, Option.getD_some]
  · simp only [exactProj, hof, pA, Option.getD_some]

/-- … and the components themselves: `s_true` is the padded reference, `e_spat`, `e_interf` and `e_artif` are
    identically zero. -/
theorem decompExact_perfect (refs : List (List Rat)) (j flen : Nat) (d : Decomp Sig)
    (hwf : WF refs (refs.getD j []) j flen) (h : decompExact refs (refs.getD j []) j flen = some d) :
    d.sTrue.xs = refs.getD j [] ++ zeros (flen - 1) ∧
      d.eSpat.xs = zeros ((refs.getD j []).length + flen - 1) ∧
      d.eInterf.xs = zeros ((refs.getD j []).length + flen - 1) ∧
      d.eArtif.xs = zeros ((refs.getD j []).length + flen - 1) := by
  have hflen := hwf.flen_pos
  have hl0 := hwf.head_len
  have hmem : refs.getD j [] ∈ refs := by
    rw [List.getD_eq_getElem?_getD, List.getElem?_eq_getElem hwf.hj]; exact List.getElem_mem _
  rw [decompExact_eq_with] at h
  generalize refs.getD j [] = rj at *
  obtain ⟨pT, pA, hT, hA, rfl⟩ := decompWith_eq_some h
  have pT' := project_reference [rj] rj rj flen hflen (by simp) (by simp) (by simp [hT])
  have pA' := project_reference refs rj rj flen hflen hmem hl0.symm (by simp [hA])
  rw [hT, Option.some.injEq] at pT'
  rw [hA, Option.some.injEq] at pA'
  subst pT' pA'
  exact ⟨rfl, decompRow_self _ rj _ (length_sePad rj flen hflen) (padTo_target rj rj _ rfl)⟩

example : sourceCritExact [[1, 2, 0, -1], [0, 1, 1, 3]] [2, 1, 0, 5] 0 2 =
      some (.ofRatio (1/59), .ofRatio (19/1000), .ofRatio (1019/121)) ∧
    sourceCritExact [[1, 2, 0, -1], [0, 1, 1, 3]] [-6, -3, 0, -15] 0 2 =
      some (.ofRatio (1/59), .ofRatio (19/1000), .ofRatio (1019/121)) ∧
    sourceCritExact [[5, 10, 0, -5], [0, 1, 1, 3]] [2, 1, 0, 5] 0 2 =
      some (.ofRatio (1/59), .ofRatio (19/1000), .ofRatio (1019/121)) ∧
    sourceCritExact [[1, 2, 0, -1], [0, 1, 1, 3]] [1, 2, 0, -1] 0 2 = some (.posInf, .posInf, .posInf) := by
  refine ⟨?_, ?_, ?_, ?_⟩ <;> decide +kernel

example : WF [[1, 2, 0, -1], [0, 1, 1, 3]] [2, 1, 0, 5] 0 2 := ⟨by decide, by simp, by decide⟩

/-! ## 4. `bss_eval_sources` on the exact kernel -/

/-- The permutation picked by the exact model is a permutation of the sources … -/
theorem bestPermMul_is_perm (n : Nat) (S : Nat → Nat → Rat) : (bestPermMul n S).Perm (List.range n) :=
  (mem_perms_iff _ _).1 (bestPermMul_mem n S)

/-- … that maximises the product of the SIR ratios (= the mean SIR in dB, for positive ratios). -/
theorem bestPermMul_maximises (n : Nat) (S : Nat → Nat → Rat) (q : List Nat) (hq : q.Perm (List.range n)) :
    prodFrom S 0 q ≤ prodFrom S 0 (bestPermMul n S) :=
  bestPermMul_max n S q hq

/-- **argmax of the mean SIR in dB = argmax of the product of the SIR ratios.**  Over the reals, for positive
    ratios, the permutation the exact model selects is `perms[np.argmax(mean_sir)]` with `mean_sir` the mean of
    `10·log10` of the ratios (`meanSirDb`): the FIRST permutation in `itertools.permutations` order of maximal mean
    SIR in decibel.  (`Σ_j 10 log10 S_j = 10 log10 Π_j S_j`, `log10` strictly increasing.) -/
theorem bestPermMul_is_first_argmax_db (n : Nat) (hn : 0 < n) (S : Nat → Nat → Rat)
    (hpos : ∀ e < n, ∀ j < n, 0 < S e j) :
    ∃ pre post, perms (List.range n) = pre ++ bestPermMul n S :: post ∧
      (∀ q ∈ pre, meanSirDb n S q < meanSirDb n S (bestPermMul n S)) ∧
      (∀ q ∈ post, meanSirDb n S q ≤ meanSirDb n S (bestPermMul n S)) :=
  bestPermMul_first_argmax_db n hn S hpos

/-- the two orders agree on any two assignments -/
theorem mean_db_le_iff_prod_le (n : Nat) (hn : 0 < n) (S : Nat → Nat → Rat) (hpos : ∀ e < n, ∀ j < n, 0 < S e j)
    (p q : List Nat) (hp : p.Perm (List.range n)) (hq : q.Perm (List.range n)) :
    meanSirDb n S p ≤ meanSirDb n S q ↔ prodFrom S 0 p ≤ prodFrom S 0 q :=
  meanSirDb_le_iff n hn S hpos hp hq

example : meanSirDb 2 (fun _ _ => 10) [0, 1] = 10 := by
  simp [meanSirDb, sumDbFrom]

/-- END TO END (estimate): every output of the exact `bss_eval_sources` — SDR, SIR, SAR of every source and the
    permutation, with or without `compute_permutation` — is unchanged when one estimated source is multiplied
    by `c ≠ 0`. -/
theorem bssEvalSourcesExact_scale_est (refs ests : List (List Rat)) (flen n k : Nat) (cp : Bool) (c : Rat)
    (hc : c ≠ 0) (hwf : WFAll refs ests flen n) :
    bssEvalSourcesExact refs (ests.modify k (vscale c)) flen cp = bssEvalSourcesExact refs ests flen cp := by
  unfold bssEvalSourcesExact
  rw [List.length_modify]
  apply selectExact_congr
  intro e he j hj
  rw [getD_modify ests _ k e he]
  by_cases hk : k = e
  · rw [if_pos hk, sourceCritExact_scale_est refs _ j flen c hc (hwf.wf he hj)]
  · rw [if_neg hk]

/-- END TO END (reference): … and when one reference source is multiplied by `c ≠ 0`. -/
theorem bssEvalSourcesExact_scale_ref (refs ests : List (List Rat)) (flen n i : Nat) (cp : Bool) (c : Rat)
    (hc : c ≠ 0) (hwf : WFAll refs ests flen n) :
    bssEvalSourcesExact (refs.modify i (vscale c)) ests flen cp = bssEvalSourcesExact refs ests flen cp := by
  unfold bssEvalSourcesExact
  apply selectExact_congr
  intro e he j hj
  rw [sourceCritExact_scale_ref refs _ i j flen c hc (hwf.wf he hj)]

example : bssEvalSourcesExact [[1, 2, 0, -1], [0, 1, 1, 3]] [[2, 1, 0, 5], [1, 1, 1, -2]] 2 true =
      some ([[.ofRatio (9/5), .ofRatio (171/86), .ofRatio (257/9)],
             [.ofRatio (817/233), .ofRatio (31046/4619), .ofRatio (1019/121)]], [1, 0]) ∧
    WFAll [[1, 2, 0, -1], [0, 1, 1, 3]] [[2, 1, 0, 5], [1, 1, 1, -2]] 2 4 := by
  refine ⟨by decide +kernel, by decide, by simp, by simp, rfl⟩

/-! ## 5. the singular branch (`except LinAlgError: lstsq`) -/

/-- `solveAny?` (free unknowns set to 0) is sound … -/
theorem solveAny_sound (A : List (List Rat)) (b x : List Rat) (hb : b.length = A.length)
    (h : solveAny? A b = some x) : x.length = A.length ∧ mulVec A x = b := by
  obtain ⟨h1, h2⟩ := solveAnyRows_sound _ _ _ h
  refine ⟨h1, ?_⟩
  apply List.ext_getElem
  · simp [mulVec, hb]
  · intro i hi1 hi2
    simp only [mulVec, List.length_map] at hi1
    have := h2 (A[i], b[i]) (mem_zip_iff.2 ⟨i, hi1, hi2, rfl⟩)
    simpa [mulVec] using this

/-- … and extends `solve?`. -/
theorem solveAny_extends_solve (A : List (List Rat)) (b x : List Rat) (h : solve? A b = some x) :
    solveAny? A b = some x :=
  solveAnyRows_eq_of_solveRows _ _ _ h

/-- The projection computed through the singular branch still satisfies the normal equations: whenever it
    returns, the residual is orthogonal to every delayed reference (dependent or not). -/
theorem projectAny_normal_equations (refs : List (List Rat)) (est : List Rat) (flen : Nat) (p : List Rat)
    (h : projectAny refs est flen = some p) :
    ∀ r ∈ refs, ∀ d < flen,
      dot (delayed ((refs.headD []).length + flen - 1) d r) (vsub (est ++ zeros (flen - 1)) p) = 0 := by
  intro r hr d hd
  simp only [projectAny, projectOnAny] at h
  obtain ⟨x, hx, rfl⟩ := Option.map_eq_some_iff.1 h
  set B := basis ((refs.headD []).length + flen - 1) flen refs
  have hx' : solveAnyRows B.length (normalRows B (est ++ zeros (flen - 1))) = some x := by
    have : solveAny? (gram B) (dots B (est ++ zeros (flen - 1))) =
        solveAnyRows B.length (normalRows B (est ++ zeros (flen - 1))) := by
      simp [solveAny?, gram, dots, normalRows, List.zip_map']
    rw [← this]; exact hx
  have hu : delayed ((refs.headD []).length + flen - 1) d r ∈ B := mem_basis.2 ⟨r, hr, d, hd, rfl⟩
  have := (solveAnyRows_sound _ _ _ hx').2 _ (List.mem_map.2 ⟨_, hu, rfl⟩)
  simp only [dot_dots_eq] at this
  rw [dot_vsub_right, dot_padd_right, dot_zeros_right, this, dot_comm]; ring

example : projectAny [[1, 2, 0, -1], [1, 2, 0, -1]] [2, 1, 0, 5] 2 = some [-1/4, -1/4, 1/2, 1/4, -1/4] ∧
    project [[1, 2, 0, -1]] [2, 1, 0, 5] 2 = some [-1/4, -1/4, 1/2, 1/4, -1/4] := by
  constructor <;> decide +kernel

/-- COMPLETENESS of `solveAny?`: it succeeds exactly on the CONSISTENT square systems (those that have a solution),
    singular or not. -/
theorem solveAny_isSome_iff (A : List (List Rat)) (b : List Rat) (hb : b.length = A.length) :
    (solveAny? A b).isSome ↔ ∃ y : List Rat, y.length = A.length ∧ mulVec A y = b := by
  unfold solveAny?
  rw [solveAnyRows_isSome_iff]
  constructor
  · rintro ⟨y, hy, hsat⟩
    refine ⟨y, hy, ?_⟩
    apply List.ext_getElem
    · simp [mulVec, hb]
    · intro i hi1 hi2
      simp only [mulVec, List.length_map] at hi1
      have := hsat (A[i], b[i]) (mem_zip_iff.2 ⟨i, hi1, hi2, rfl⟩)
      simpa [mulVec] using this
  · rintro ⟨y, hy, hmul⟩
    refine ⟨y, hy, ?_⟩
    intro r hr
    obtain ⟨i, hi1, hi2, rfl⟩ := mem_zip_iff.1 hr
    have : (mulVec A y)[i]'(by simp [mulVec, hi1]) = b[i] := by simp [hmul]
    simpa [mulVec] using this

/-- CONSISTENCY OF NORMAL EQUATIONS: for every finite family `B` of signals (linearly dependent or not) and every
    target `se`, the system `G y = D` with `G = gram B` (`G[k][l] = ⟨B_k, B_l⟩`) and `D = dots B se`
    (`D[k] = ⟨B_k, se⟩`) has a solution — the orthogonal projection on the span of `B` exists. -/
theorem normal_equations_consistent (B : List (List Rat)) (se : List Rat) :
    ∃ y : List Rat, y.length = B.length ∧ mulVec (gram B) y = dots B se := by
  obtain ⟨y, hy, hsat⟩ := normal_equations_solvable B se
  refine ⟨y, hy, ?_⟩
  simp only [mulVec, gram, dots, List.map_map]
  apply List.map_congr_left
  intro u hu
  simp only [Function.comp_def]
  have := hsat u hu
  rw [← dot_dots_eq] at this
  rw [dot_comm se u, ← this]

/-- **`solveAny?` always succeeds on normal equations**: Gaussian elimination with free unknowns set to 0 finds a
    solution of `G x = D` whenever `G`, `D` are the Gram matrix and right-hand side of a least-squares problem. -/
theorem solveAny_normal_equations (B : List (List Rat)) (se : List Rat) :
    ∃ x, solveAny? (gram B) (dots B se) = some x ∧ x.length = B.length ∧ mulVec (gram B) x = dots B se := by
  obtain ⟨x, hx⟩ := Option.isSome_iff_exists.1 (solveAny_gram_isSome B se)
  obtain ⟨h1, h2⟩ := solveAny_sound (gram B) (dots B se) x (by simp [gram]) hx
  exact ⟨x, hx, by simpa [gram] using h1, h2⟩

/-- **The lstsq fall-back of the exact model is TOTAL**, and what it returns satisfies the normal equations: for
    ALL references (dependent, empty, of any lengths), estimates and filter lengths `_project` through its singular
    branch returns a signal whose residual is orthogonal to every delayed reference
    (`projectAny_normal_equations` without its "returned" hypothesis). -/
theorem projectAny_total (refs : List (List Rat)) (est : List Rat) (flen : Nat) :
    ∃ p, projectAny refs est flen = some p ∧
      ∀ r ∈ refs, ∀ d < flen,
        dot (delayed ((refs.headD []).length + flen - 1) d r) (vsub (est ++ zeros (flen - 1)) p) = 0 := by
  obtain ⟨p, hp⟩ := Option.isSome_iff_exists.1
    (projectOnAny_isSome (basis ((refs.headD []).length + flen - 1) flen refs) (est ++ zeros (flen - 1)))
  have hp' : projectAny refs est flen = some p := hp
  exact ⟨p, hp', projectAny_normal_equations refs est flen p hp'⟩

/-- LEAST SQUARES through the singular branch: no combination of the delayed references is closer to the
    (zero-padded) estimate than what `projectAny` returns. -/
theorem projectAny_least_squares (refs : List (List Rat)) (est : List Rat) (flen : Nat) (p : List Rat)
    (h : projectAny refs est flen = some p) (c : List Rat) :
    let se := est ++ zeros (flen - 1)
    let q := lincomb c (basis ((refs.headD []).length + flen - 1) flen refs)
    dot (vsub se p) (vsub se p) ≤ dot (vsub se q) (vsub se q) :=
  projectOnAny_least_squares _ _ p h c

/-- where the plain solver succeeds (independent delayed references) the fall-back returns the same coefficients,
    hence the same signal up to the zero padding of `projectOnAny` -/
theorem projectAny_extends_project (refs : List (List Rat)) (est : List Rat) (flen : Nat) (p : List Rat)
    (h : project refs est flen = some p) :
    projectAny refs est flen = some (padd p (zeros (est ++ zeros (flen - 1)).length)) := by
  simp only [project, projectOn] at h
  obtain ⟨x, hx, rfl⟩ := Option.map_eq_some_iff.1 h
  simp only [projectAny, projectOnAny, solveAny_extends_solve _ _ _ hx, Option.map_some]

/-- **ANY solution of the normal equations gives the same projected signal**: if `c` (one coefficient per delayed
    reference) satisfies `G c = D` — for instance the minimum-norm solution `np.linalg.lstsq` returns on a singular
    system — then `Σ c_l B_l` is exactly the signal the model's fall-back returns.  So the choice "free unknowns = 0"
    of `solveAny?` is immaterial for `_project`. -/
theorem projectAny_eq_of_solution (refs : List (List Rat)) (est : List Rat) (flen : Nat) (c : List Rat)
    (hc : c.length = refs.length * flen)
    (hsol : mulVec (gram (basis ((refs.headD []).length + flen - 1) flen refs)) c =
      dots (basis ((refs.headD []).length + flen - 1) flen refs) (est ++ zeros (flen - 1))) :
    projectAny refs est flen =
      some (padd (lincomb c (basis ((refs.headD []).length + flen - 1) flen refs))
        (zeros (est ++ zeros (flen - 1)).length)) := by
  set B := basis ((refs.headD []).length + flen - 1) flen refs with hB
  apply projectOnAny_eq_of_solution ((refs.headD []).length + flen - 1) B
    (fun b hb => length_of_mem_basis hb) _ c (by rw [hc, hB, length_basis])
  intro u hu
  obtain ⟨i, hi, rfl⟩ := List.getElem_of_mem hu
  have h1 : (mulVec (gram B) c)[i]'(by simp [mulVec, gram, hi]) =
      (dots B (est ++ zeros (flen - 1)))[i]'(by simp [hi]) := by simp [hsol]
  simp only [mulVec, gram, dots, List.getElem_map] at h1
  have h2 := dot_dots_eq B[i] B c
  simp only [dots] at h2
  rw [← h2, h1, dot_comm]

/-- the signals of two solutions cannot be told apart by any vector, whatever the lengths involved -/
theorem normal_equations_signal_unique (B : List (List Rat)) (se x x' : List Rat)
    (hx : ∀ u ∈ B, dot u (lincomb x B) = dot u se) (hx' : ∀ u ∈ B, dot u (lincomb x' B) = dot u se)
    (w : List Rat) : dot (lincomb x B) w = dot (lincomb x' B) w :=
  normal_solutions_same_signal B se x x' hx hx' w

/-- the multichannel fall-back (`_project_images` through `lstsq`) is total as well -/
theorem projectImagesAny_total (rows es : List (List Rat)) (flen : Nat) :
    (projectImagesAny rows es flen).isSome :=
  mapM_isSome_of_forall _ es (fun _ _ => projectOnAny_isSome _ _)

example : solveAny? [[1, 2], [2, 4]] [1, 2] = some [1, 0] ∧ solveAny? [[1, 2], [2, 4]] [1, 3] = none ∧
    gram [[1, 2], [2, 4]] = [[5, 10], [10, 20]] ∧ dots [[1, 2], [2, 4]] [1, 0] = [1, 2] ∧
    solveAny? (gram [[1, 2], [2, 4]]) (dots [[1, 2], [2, 4]] [1, 0]) = some [1/5, 0] := by
  refine ⟨?_, ?_, ?_, ?_, ?_⟩ <;> decide +kernel

/-! ## 6. images: `_project_images` is `_project` channel by channel -/

/-- Every channel of the estimate is projected, independently, on ALL delayed reference channels: the exact
    `_project_images` is `_project` (on the flattened reference channels) applied to each estimate channel, so
    every theorem of section 2 holds channel by channel. -/
theorem projectImages_cons (rows : List (List Rat)) (e : List Rat) (es : List (List Rat)) (flen : Nat) :
    projectImages rows (e :: es) flen =
      (project rows e flen).bind fun p => (projectImages rows es flen).map fun ps => p :: ps := by
  simp only [projectImages, project_eq, List.mapM_cons]
  cases projectOn (basis ((rows.headD []).length + flen - 1) flen rows) (e ++ zeros (flen - 1)) with
  | none => rfl
  | some p =>
    cases List.mapM (fun e => projectOn (basis ((rows.headD []).length + flen - 1) flen rows)
        (e ++ zeros (flen - 1))) es with
    | none => rfl
    | some ps => rfl

theorem projectImages_nil (rows : List (List Rat)) (flen : Nat) : projectImages rows [] flen = some [] := rfl

/-- … in particular it is homogeneous in the (multichannel) estimate. -/
theorem projectImages_homogeneous (rows : List (List Rat)) (flen : Nat) (c : Rat) : ∀ (es : List (List Rat)),
    projectImages rows (es.map (vscale c)) flen = (projectImages rows es flen).map (List.map (vscale c))
  | [] => rfl
  | e :: es => by
      rw [List.map_cons, projectImages_cons, projectImages_cons, project_vscale,
        projectImages_homogeneous rows flen c es]
      cases project rows e flen with
      | none => rfl
      | some p =>
        cases projectImages rows es flen with
        | none => rfl
        | some ps => rfl

/-- `_project_images` succeeds exactly when `_project` succeeds on every channel, and then returns the channel
    projections in order. -/
theorem projectImages_channelwise (rows : List (List Rat)) (flen : Nat) : ∀ (es ps : List (List Rat)),
    projectImages rows es flen = some ps ↔ List.Forall₂ (fun e p => project rows e flen = some p) es ps
  | [], ps => by
      rw [projectImages_nil]
      constructor
      · intro h; cases h; exact List.Forall₂.nil
      · intro h; cases h; rfl
  | e :: es, ps => by
      rw [projectImages_cons]
      constructor
      · intro h
        cases hp : project rows e flen with
        | none => simp [hp] at h
        | some p =>
          cases hq : projectImages rows es flen with
          | none => simp [hp, hq] at h
          | some qs =>
            simp only [hp, hq, Option.bind_some, Option.map_some, Option.some.injEq] at h
            subst h
            exact List.Forall₂.cons hp ((projectImages_channelwise rows flen es qs).1 hq)
      · intro h
        cases h with
        | cons h1 h2 =>
          rw [h1, (projectImages_channelwise rows flen es _).2 h2]
          rfl

/-- NORMAL EQUATIONS for images: the residual of every projected channel is orthogonal to every delayed reference
    channel. -/
theorem projectImages_normal_equations (rows es ps : List (List Rat)) (flen : Nat)
    (h : projectImages rows es flen = some ps) :
    ps.length = es.length ∧ ∀ ep ∈ es.zip ps, ∀ r ∈ rows, ∀ d < flen,
      dot (delayed ((rows.headD []).length + flen - 1) d r) (vsub (ep.1 ++ zeros (flen - 1)) ep.2) = 0 := by
  have hf := (projectImages_channelwise rows flen es ps).1 h
  obtain ⟨hlen, hz⟩ := List.forall₂_iff_zip.1 hf
  refine ⟨hlen.symm, ?_⟩
  rintro ⟨e, p⟩ hep r hr d hd
  exact project_normal_equations rows e flen p (hz hep) r hr d hd

/-- LEAST SQUARES for images: no combination of the delayed reference channels is closer to a channel of the
    estimate than its projection. -/
theorem projectImages_least_squares (rows es ps : List (List Rat)) (flen : Nat)
    (h : projectImages rows es flen = some ps) (c : List Rat) :
    ∀ ep ∈ es.zip ps,
      dot (vsub (ep.1 ++ zeros (flen - 1)) ep.2) (vsub (ep.1 ++ zeros (flen - 1)) ep.2) ≤
        dot (vsub (ep.1 ++ zeros (flen - 1)) (lincomb c (basis ((rows.headD []).length + flen - 1) flen rows)))
          (vsub (ep.1 ++ zeros (flen - 1)) (lincomb c (basis ((rows.headD []).length + flen - 1) flen rows))) := by
  have hf := (projectImages_channelwise rows flen es ps).1 h
  obtain ⟨-, hz⟩ := List.forall₂_iff_zip.1 hf
  rintro ⟨e, p⟩ hep
  exact project_least_squares rows e flen p (hz hep) c

example : projectImages [[1, 2, 0, -1], [0, 1, 1, 3]] [[2, 1, 0, 5], [4, 2, 0, 10]] 2 =
    some [[31/76, 131/76, -11/38, 369/76, 11/76], [31/38, 131/38, -11/19, 369/38, 11/38]] := by
  decide +kernel

end Mir.C19.LS
