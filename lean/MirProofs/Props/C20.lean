import MirProofs.Lemmas.IO
import MirProofs.Lemmas.IOTyped
/-!
  C20 — annotation files load back to exactly what they encode.

  The theorems are about the model of `mir_eval/io.py` in `MirModel/IO.lean` (tied to the code by the
  correspondence check of `harness/props/c20.py`).  Numeric tokens are abstract: a theorem holds for every
  converter `conv : List Char → Option α` (in the code: `float`, `int`, `str`), the hypotheses say which texts it
  maps to which values.  Files are unbounded lists of lines, rows are unbounded lists of fields.

  Vocabulary (`MirProofs/Lemmas/IO.lean`):
  * `joinRow f [(s₁,g₁),…,(sₖ,gₖ)] = f ++ s₁ ++ g₁ ++ … ++ sₖ ++ gₖ` — a row as written;
  * `RowOK d f rest` — every separator is an instance of the delimiter `d`, no delimiter match starts inside a
    field other than the last one (`Clean`), a greedy `\s+` cannot run into the next field (`StartsClean`);
    the LAST field is unconstrained (it may contain blanks / delimiters);
  * `Tight s` — `s` neither starts nor ends with Python whitespace; `AllSpace s` — only whitespace;
  * `Item` / `RowSpec` / `Fld` — a file as a list of comment lines and data rows whose fields carry the text
    written and the value it denotes; `renderFile`, `dataRows`.
-/
namespace Mir.C20
open Mir.IO

/-! ## splitting a written row -/

/-- **split/join round trip.** A row of `n = k+1` fields written with any instances of the delimiter, padded by
    blanks and ended by a newline, is split back into exactly its fields by
    `re.split(delimiter, line.strip(), n-1)` — the last field may contain the delimiter (internal blanks of a
    label).  With one column (`maxsplit = 0` = unlimited) the field must not contain the delimiter. -/
theorem split_join (d : Delim) (pre post f : List Char) (rest : List (List Char × List Char))
    (hpre : AllSpace pre) (hpost : AllSpace post) (htight : Tight (joinRow f rest))
    (hrow : RowOK d f rest) (hsingle : rest = [] → NoDelim d f) :
    reSplit d (((rest.length + 1 : Nat) : Int) - 1) (stripPy (pre ++ joinRow f rest ++ post))
      = f :: rest.map Prod.snd := by
  rw [stripPy_pad hpre hpost htight]
  by_cases hr : rest = []
  · subst hr
    simp only [List.length_nil, Nat.zero_add, joinRow, List.map_nil]
    have hz : (((1 : Nat) : Int) - 1) = 0 := by simp
    rw [hz]
    unfold reSplit
    simp only [Int.lt_irrefl, if_false, if_true]
    exact splitN_noDelim (hsingle rfl) _
  · exact reSplit_joinRow rest f hrow hr

/-- non-vacuity: `"  1.5 \t2 verse A\n"` with `\s+` and 3 columns -/
example : reSplit .ws 2 (stripPy "  1.5 \t2 verse A\n".toList) = ["1.5".toList, "2".toList, "verse A".toList] := by
  decide

/-- **labels with internal whitespace (`\s+`, three columns).** Two blank-free tokens and a label that starts and
    ends with a non-blank but may contain any blanks inside come back unchanged, whatever blank strings separate
    and surround them. -/
theorem label_internal_whitespace (pre post a b label s1 s2 : List Char)
    (hpre : AllSpace pre) (hpost : AllSpace post)
    (ha : a ≠ [] ∧ ∀ c ∈ a, isSpacePy c = false) (hb : b ≠ [] ∧ ∀ c ∈ b, isSpacePy c = false)
    (hs1 : s1 ≠ [] ∧ AllSpace s1) (hs2 : s2 ≠ [] ∧ AllSpace s2)
    (hl : label ≠ [] ∧ Tight label) :
    reSplit .ws 2 (stripPy (pre ++ (a ++ (s1 ++ (b ++ (s2 ++ label)))) ++ post)) = [a, b, label] := by
  have hrow : RowOK .ws a [(s1, b), (s2, label)] := by
    apply rowOK_ws
    · intro p hp; simp at hp; rcases hp with rfl | rfl <;> assumption
    · intro p hp; simp at hp
      rcases hp with rfl | rfl
      · refine ⟨hb.1, fun x hx => hb.2 x ?_⟩
        cases b with
        | nil => simp at hx
        | cons y ys => simp at hx; simp [hx]
      · exact ⟨hl.1, hl.2.1⟩
    · intro g hg; simp [List.dropLast] at hg
      rcases hg with rfl | rfl
      · exact ha.2
      · exact hb.2
  have htight : Tight (joinRow a [(s1, b), (s2, label)]) := by
    obtain ⟨hane, hac⟩ := ha
    obtain ⟨hlne, hlt⟩ := hl
    constructor
    · intro x hx
      cases a with
      | nil => exact absurd rfl hane
      | cons y ys => simp [joinRow] at hx; exact hac x (by simp [hx])
    · intro z hz
      apply hlt.2 z
      cases hw : label.getLast? with
      | none => exact absurd (List.getLast?_eq_none_iff.mp hw) hlne
      | some w =>
        simp only [joinRow, List.getLast?_append, hw, Option.some_or] at hz
        exact hz
  have := split_join .ws pre post a [(s1, b), (s2, label)] hpre hpost htight hrow (by simp)
  simpa [joinRow] using this

/-! ## `load_delimited` -/

/-- **load round trip (rows).** A file made of comment lines and well-formed data rows — any delimiter instance
    between fields, blank padding, every converter mapping the written text of its column to the value — is loaded
    as exactly the encoded rows, in file order, comment lines skipped. -/
theorem load_table_roundtrip {α : Type} (convs : List (Conv α)) (d : Delim) (c : Option (List Char))
    (items : List (Item α)) (h : ∀ it ∈ items, it.WF convs d c) :
    loadTable convs d c (renderFile items) = .ok (dataRows items) := by
  unfold loadTable
  have hs := splitLines_renderFile items h []
  simp only [List.append_nil, splitLines] at hs
  rw [hs]
  have := loadRows_items items h 1 []
  simpa [loadRows] using this

/-- **load round trip (columns)**: what `load_delimited` returns. -/
theorem load_roundtrip {α : Type} (convs : List (Conv α)) (d : Delim) (c : Option (List Char))
    (items : List (Item α)) (h : ∀ it ∈ items, it.WF convs d c) :
    loadDelimited convs d c (renderFile items) = .ok (columns convs.length (dataRows items)) := by
  unfold loadDelimited
  rw [load_table_roundtrip convs d c items h]

/-- the same when the last row is not terminated by a newline -/
theorem load_roundtrip_no_final_newline {α : Type} (convs : List (Conv α)) (d : Delim) (c : Option (List Char))
    (items : List (Item α)) (h : ∀ it ∈ items, it.WF convs d c) (last : RowSpec α)
    (hl : last.WF convs d) (hc : isComment c last.line = false) (hn : '\n' ∉ last.line) (hne : last.line ≠ []) :
    loadTable convs d c (renderFile items ++ last.line) = .ok (dataRows items ++ [last.vals]) := by
  unfold loadTable
  rw [splitLines_renderFile items h, splitLines_last hn hne, loadRows_items items h 1 [last.line]]
  have hline := RowSpec.loadLine_ok hl [] (by intro x hx; simp at hx) (1 + items.length)
  simp only [List.append_nil] at hline
  simp [loadRows, hc, hline]

/-- non-vacuity of the hypotheses: a labelled-event file with a comment and two rows (the second padded, its label
    starting with `#` and holding a blank), `\s+`, default marker, the driver's `float` recogniser -/
def exampleItems : List (Item (Cell (List Char))) :=
  [.comment "# onsets".toList,
   .row ⟨[], [], ⟨"0.5".toList, .num "0.5".toList⟩, [(" ".toList, ⟨"kick".toList, .str "kick".toList⟩)]⟩,
   .row ⟨" ".toList, "\t".toList, ⟨"1e0".toList, .num "1e0".toList⟩,
         [("\t ".toList, ⟨"#snare drum".toList, .str "#snare drum".toList⟩)]⟩]

example : (∀ it ∈ exampleItems, it.WF [numConv floatConv, strConv] .ws (some ['#'])) ∧
    dataRows exampleItems =
      [[.num "0.5".toList, .str "kick".toList], [.num "1e0".toList, .str "#snare drum".toList]] := by
  refine ⟨?_, by decide⟩
  intro it hit
  simp only [exampleItems, List.mem_cons, List.not_mem_nil, or_false] at hit
  rcases hit with rfl | rfl | rfl
  · exact ⟨by decide, by decide⟩
  · refine ⟨⟨?_, ?_, ?_, ?_, ?_, ?_⟩, by decide, by decide⟩
    · unfold AllSpace; decide
    · unfold AllSpace; decide
    · unfold Tight; decide
    · simp only [RowOK, Clean, IsSep, StartsClean, AllSpace, joinRow, RowSpec.textRest, List.map]; decide
    · intro h; cases h
    · simp only [RowSpec.flds, ConvOK, List.map]; decide
  · refine ⟨⟨?_, ?_, ?_, ?_, ?_, ?_⟩, by decide, by decide⟩
    · unfold AllSpace; decide
    · unfold AllSpace; decide
    · unfold Tight; decide
    · simp only [RowOK, Clean, IsSep, StartsClean, AllSpace, joinRow, RowSpec.textRest, List.map]; decide
    · intro h; cases h
    · simp only [RowSpec.flds, ConvOK, List.map]; decide

example : loadDelimited [numConv floatConv, strConv] .ws (some ['#']) (renderFile exampleItems)
    = .ok [[.num "0.5".toList, .num "1e0".toList], [.str "kick".toList, .str "#snare drum".toList]] := by
  decide

/-- **`load_labeled_intervals`.** Rows `start stop label` (label: any text that starts and ends with a non-blank) are
    returned as the `(start, stop)` pairs and the labels, both in file order. -/
theorem load_labeled_intervals_roundtrip {α : Type} (conv : Conv α) (d : Delim) (c : Option (List Char))
    (rows : List (LabeledIntervalRow α))
    (h : ∀ it ∈ rows.map LabeledIntervalRow.item, it.WF [numConv conv, numConv conv, strConv] d c) :
    loadLabeledIntervals conv d c (renderFile (rows.map LabeledIntervalRow.item)) =
      .ok (rows.map (fun r => (r.start.val, r.stop.val)), rows.map (fun r => r.label)) := by
  unfold loadLabeledIntervals
  rw [load_table_roundtrip _ d c _ h, dataRows_labeledIntervals]
  simp only [Except.map, pairCol_labeledIntervals, strCol_labeledIntervals]

/-- **`load_events`.** One number per line comes back as the list of numbers in file order. -/
theorem load_events_roundtrip {α : Type} (conv : Conv α) (d : Delim) (c : Option (List Char))
    (rows : List (EventRow α)) (h : ∀ it ∈ rows.map EventRow.item, it.WF [numConv conv] d c) :
    loadEvents conv d c (renderFile (rows.map EventRow.item)) = .ok (rows.map fun r => r.time.val) := by
  unfold loadEvents
  rw [load_table_roundtrip _ d c _ h]
  simp only [Except.map, numCol_events]

/-- **`load_labeled_events`.** Rows `time label` come back as the times and the labels, in file order. -/
theorem load_labeled_events_roundtrip {α : Type} (conv : Conv α) (d : Delim) (c : Option (List Char))
    (rows : List (LabeledEventRow α))
    (h : ∀ it ∈ rows.map LabeledEventRow.item, it.WF [numConv conv, strConv] d c) :
    loadLabeledEvents conv d c (renderFile (rows.map LabeledEventRow.item)) =
      .ok (rows.map (fun r => r.time.val), rows.map (fun r => r.label)) := by
  unfold loadLabeledEvents
  rw [load_table_roundtrip _ d c _ h, dataRows_labeledEvents]
  simp only [Except.map, numCol_labeledEvents, strCol_labeledEvents]

/-- **`load_intervals`.** Rows `start stop` come back as the `(start, stop)` pairs in file order. -/
theorem load_intervals_roundtrip {α : Type} (conv : Conv α) (d : Delim) (c : Option (List Char))
    (rows : List (PairRow α)) (h : ∀ it ∈ rows.map PairRow.item, it.WF [numConv conv, numConv conv] d c) :
    loadIntervals conv d c (renderFile (rows.map PairRow.item)) =
      .ok (rows.map fun r => (r.fst.val, r.snd.val)) := by
  unfold loadIntervals
  rw [load_table_roundtrip _ d c _ h, dataRows_pairs]
  simp only [Except.map, pairCol_pairs]

/-- **`load_time_series`.** Rows `time value` come back as the two columns, each in file order. -/
theorem load_time_series_roundtrip {α : Type} (conv : Conv α) (d : Delim) (c : Option (List Char))
    (rows : List (PairRow α)) (h : ∀ it ∈ rows.map PairRow.item, it.WF [numConv conv, numConv conv] d c) :
    loadTimeSeries conv d c (renderFile (rows.map PairRow.item)) =
      .ok (rows.map (fun r => r.fst.val), rows.map (fun r => r.snd.val)) := by
  unfold loadTimeSeries
  rw [load_table_roundtrip _ d c _ h, dataRows_pairs]
  simp only [Except.map, numCol_pairs_fst, numCol_pairs_snd]

/-- **`load_valued_intervals`.** Rows `start stop value` come back as the `(start, stop)` pairs and the values. -/
theorem load_valued_intervals_roundtrip {α : Type} (conv : Conv α) (d : Delim) (c : Option (List Char))
    (rows : List (ValuedIntervalRow α))
    (h : ∀ it ∈ rows.map ValuedIntervalRow.item, it.WF [numConv conv, numConv conv, numConv conv] d c) :
    loadValuedIntervals conv d c (renderFile (rows.map ValuedIntervalRow.item)) =
      .ok (rows.map (fun r => (r.start.val, r.stop.val)), rows.map (fun r => r.value.val)) := by
  unfold loadValuedIntervals
  rw [load_table_roundtrip _ d c _ h, dataRows_valuedIntervals]
  simp only [Except.map, pairCol_valuedIntervals, numCol_valuedIntervals]

example : loadLabeledEvents floatConv .ws (some ['#']) "0.5 kick\n1.0\tsnare drum \n".toList
    = .ok (["0.5".toList, "1.0".toList], ["kick".toList, "snare drum".toList]) := by decide
example : loadIntervals floatConv .ws (some ['#']) "0.0 1.5\n1.5\t3e0\n".toList
    = .ok [("0.0".toList, "1.5".toList), ("1.5".toList, "3e0".toList)] := by decide
example : loadTimeSeries floatConv .ws (some ['#']) "0.0 440\n0.01 0\n".toList
    = .ok (["0.0".toList, "0.01".toList], ["440".toList, "0".toList]) := by decide
example : loadValuedIntervals floatConv .ws (some ['#']) "0.0 1.5 60\n1.5 3 62.5\n".toList
    = .ok ([("0.0".toList, "1.5".toList), ("1.5".toList, "3".toList)], ["60".toList, "62.5".toList]) := by decide

example : loadLabeledIntervals floatConv .ws (some ['#']) "0.0 1.5 N\n1.5\t3e0  C:maj(9) / 3 \n".toList
    = .ok ([("0.0".toList, "1.5".toList), ("1.5".toList, "3e0".toList)], ["N".toList, "C:maj(9) / 3".toList]) := by
  decide
example : loadEvents floatConv .ws (some ['#']) "# beats\n0.5\n 1.0 \n1.5".toList
    = .ok ["0.5".toList, "1.0".toList, "1.5".toList] := by decide

/-! ## malformed rows -/

/-- **wrong number of columns.** After any well-formed lines, a non-comment line that splits into `k ≠ n` fields
    makes the loader fail with the `ValueError` that names that line's 1-based number — whatever follows. -/
theorem wrong_columns_error {α : Type} (convs : List (Conv α)) (d : Delim) (c : Option (List Char))
    (items : List (Item α)) (h : ∀ it ∈ items, it.WF convs d c)
    (bad tail : List Char) (hn : '\n' ∉ bad) (hc : isComment c (bad ++ ['\n']) = false)
    (hk : (reSplit d ((convs.length : Int) - 1) (stripPy (bad ++ ['\n']))).length ≠ convs.length) :
    loadDelimited convs d c (renderFile items ++ (bad ++ '\n' :: tail)) =
      .error (.columns (items.length + 1) convs.length
        (reSplit d ((convs.length : Int) - 1) (stripPy (bad ++ ['\n']))).length) := by
  unfold loadDelimited loadTable
  rw [splitLines_renderFile items h, splitLines_line hn, loadRows_items items h 1,
    loadRows_bad_columns convs d c _ _ _ hc hk]
  simp [Nat.add_comm]

/-- **unparsable number.** After any well-formed lines, a line with the right number of fields whose field `j`
    is rejected by its converter (the earlier ones being accepted) makes the loader fail with the `ValueError`
    that names that line's 1-based number. -/
theorem bad_number_error {α : Type} (convs : List (Conv α)) (d : Delim) (c : Option (List Char))
    (items : List (Item α)) (h : ∀ it ∈ items, it.WF convs d c)
    (badLine tail : List Char) (hn : '\n' ∉ badLine) (hc : isComment c (badLine ++ ['\n']) = false)
    (good : List (Fld α)) (cs1 : List (Conv α)) (cbad : Conv α) (cs2 : List (Conv α))
    (bad : List Char) (extra : List (List Char))
    (hconvs : convs = cs1 ++ cbad :: cs2) (hgood : ConvOK cs1 good) (hbad : cbad bad = none)
    (hsplit : reSplit d ((convs.length : Int) - 1) (stripPy (badLine ++ ['\n'])) = good.map Fld.text ++ bad :: extra)
    (hlen : extra.length = cs2.length) :
    loadDelimited convs d c (renderFile items ++ (badLine ++ '\n' :: tail)) =
      .error (.convert (items.length + 1) good.length) := by
  unfold loadDelimited loadTable
  rw [splitLines_renderFile items h, splitLines_line hn, loadRows_items items h 1,
    loadRows_bad_convert convs d c _ _ _ hc good cs1 cbad cs2 bad extra hconvs hgood hbad hsplit hlen]
  simp [Nat.add_comm]

/-- **every error names a row.** Whatever the file, if `load_delimited` fails it fails with a `ValueError` whose
    message carries the 1-based number of a line of the file. -/
theorem errors_are_valueErrors_naming_a_row {α : Type} (convs : List (Conv α)) (d : Delim)
    (c : Option (List Char)) (content : List Char) (e : LoadErr)
    (h : loadDelimited convs d c content = .error e) :
    e.toPy = .valueError ∧ ∃ r, e.row? = some r ∧ 1 ≤ r ∧ r ≤ (splitLines content).length := by
  unfold loadDelimited loadTable at h
  cases hr : loadRows convs d c 1 (splitLines content) with
  | ok rows => simp [hr] at h
  | error e' =>
    simp only [hr, Except.error.injEq] at h
    subst h
    obtain ⟨h1, r, h2, h3, h4⟩ := loadRows_error convs d c _ 1 e' hr
    exact ⟨h1, r, h2, h3, by omega⟩

/-- **a blank line is a malformed row, not a skipped one** (with `float`/`str` columns: `conv "" = none` for a
    single numeric column). -/
theorem blank_line_error {α : Type} (convs : List (Conv α)) (d : Delim) (c : Option (List Char))
    (items : List (Item α)) (h : ∀ it ∈ items, it.WF convs d c)
    (blank tail : List Char) (hb : AllSpace blank) (hn : '\n' ∉ blank)
    (hc : isComment c (blank ++ ['\n']) = false)
    (hone : ∀ cv, convs = [cv] → cv [] = none) :
    ∃ e, loadDelimited convs d c (renderFile items ++ (blank ++ '\n' :: tail)) = .error e ∧
      e.toPy = .valueError ∧ e.row? = some (items.length + 1) := by
  have hstrip : stripPy (blank ++ ['\n']) = [] := by
    have := stripPy_pad (pre := blank) (body := []) (post := ['\n']) hb allSpace_nl ⟨by simp, by simp⟩
    simpa using this
  have hsplit : reSplit d ((convs.length : Int) - 1) [] = [[]] := by
    unfold reSplit
    split
    · rfl
    · split
      · rfl
      · cases ((convs.length : Int) - 1).toNat <;> rfl
  by_cases hlen : convs.length = 1
  · obtain ⟨cv, rfl⟩ := List.length_eq_one_iff.mp hlen
    have hcv := hone cv rfl
    refine ⟨_, bad_number_error [cv] d c items h blank tail hn hc [] [] cv [] [] [] rfl trivial hcv ?_ rfl, rfl, rfl⟩
    rw [hstrip, hsplit]; rfl
  · have hk : (reSplit d ((convs.length : Int) - 1) (stripPy (blank ++ ['\n']))).length ≠ convs.length := by
      rw [hstrip, hsplit]; simpa using fun h' => hlen h'.symm
    exact ⟨_, wrong_columns_error convs d c items h blank tail hn hc hk, rfl, rfl⟩

/-- non-vacuity / witnesses on the driver's converters: dropped column, bad number, blank line, indented `#` -/
example : loadDelimited [numConv floatConv, numConv floatConv] .ws (some ['#']) "0 1\n2\n3 4\n".toList
    = .error (.columns 2 2 1) := by decide
example : loadDelimited [numConv floatConv, numConv floatConv] .ws (some ['#']) "0 1\n#c\n2 x\n".toList
    = .error (.convert 3 1) := by decide
example : loadDelimited [numConv floatConv] .ws (some ['#']) "0\n\n1\n".toList = .error (.convert 2 0) := by decide
example : loadDelimited [numConv floatConv, strConv] .ws (some ['#']) "0 a\n  # note\n".toList
    = .error (.convert 2 0) := by decide

/-- **the comment marker is anchored at column 0**: an indented marker is data. -/
theorem indented_comment_is_data (m pre rest : List Char) (a b : Char)
    (hm : m.head? = some b) (hp : pre.head? = some a) (hab : a ≠ b) :
    isComment (some m) (pre ++ rest) = false := by
  cases m with
  | nil => simp at hm
  | cons b' ms =>
    cases pre with
    | nil => simp at hp
    | cons a' ps =>
      simp at hm hp
      subst hm hp
      simp [isComment, List.isPrefixOf, Ne.symm hab]

/-! ## key and tempo files -/

/-- **key files hold exactly one data row.** -/
theorem key_single_line (d : Delim) (c : Option (List Char)) (s : List Char) (rows : List (List (List Char)))
    (h : loadTable (α := List Char) [some, some] d c s = .ok rows) :
    (∀ scale mode, rows = [[scale, mode]] → loadKey d c s = .ok (scale ++ ' ' :: mode)) ∧
    (rows.length ≠ 1 → loadKey d c s = .error .notOneLine) := by
  constructor
  · intro scale mode hr
    subst hr
    simp [loadKey, h]
  · intro hlen
    unfold loadKey
    rw [h]
    match rows, hlen with
    | [], _ => rfl
    | [r], hl => simp at hl
    | r1 :: r2 :: rs, _ => split <;> simp_all

/-- a key file written as one two-column row (plus comments) loads as `"scale mode"` -/
theorem key_roundtrip (d : Delim) (c : Option (List Char)) (items : List (Item (List Char)))
    (h : ∀ it ∈ items, it.WF [some, some] d c) (scale mode : List Char)
    (hrows : dataRows items = [[scale, mode]]) :
    loadKey d c (renderFile items) = .ok (scale ++ ' ' :: mode) :=
  (key_single_line d c _ _ (load_table_roundtrip _ d c items h)).1 scale mode hrows

/-- errors of the table loader pass through `load_key` unchanged (row-numbered `ValueError`s) -/
theorem key_error_passthrough (d : Delim) (c : Option (List Char)) (s : List Char) (e : LoadErr)
    (h : loadTable (α := List Char) [some, some] d c s = .error e) : loadKey d c s = .error e := by
  simp [loadKey, h]

/-- **tempo files**: no data row ⇒ `IndexError` (as the code is), several ⇒ "only one line", one ⇒ the weight
    range test decides between the value and `ValueError`. -/
theorem tempo_single_line {α : Type} (conv : Conv α) (weightOk : α → Bool) (d : Delim) (c : Option (List Char))
    (s : List Char) (rows : List (List α)) (h : loadTable [conv, conv, conv] d c s = .ok rows) :
    (rows = [] → loadTempo conv weightOk d c s = .error .noRow) ∧
    (2 ≤ rows.length → loadTempo conv weightOk d c s = .error .notOneLine) ∧
    (∀ t1 t2 w, rows = [[t1, t2, w]] →
      loadTempo conv weightOk d c s = if weightOk w then .ok ((t1, t2), w) else .error .badWeight) := by
  have hlen := loadRows_row_length [conv, conv, conv] d c _ 1 rows h
  refine ⟨?_, ?_, ?_⟩
  · intro hr; subst hr; simp [loadTempo, h]
  · intro h2
    unfold loadTempo
    rw [h]
    match rows, h2 with
    | [], h2 => simp at h2
    | [r], h2 => simp at h2
    | r1 :: r2 :: rs, _ => split <;> simp_all
  · intro t1 t2 w hr; subst hr; simp [loadTempo, h]

/-- **weight outside the range is an error, inside it the row is returned**, for a one-row tempo file -/
theorem tempo_weight_range {α : Type} (conv : Conv α) (weightOk : α → Bool) (d : Delim) (c : Option (List Char))
    (items : List (Item α)) (h : ∀ it ∈ items, it.WF [conv, conv, conv] d c) (t1 t2 w : α)
    (hrows : dataRows items = [[t1, t2, w]]) :
    (weightOk w = true → loadTempo conv weightOk d c (renderFile items) = .ok ((t1, t2), w)) ∧
    (weightOk w = false → loadTempo conv weightOk d c (renderFile items) = .error .badWeight) := by
  have := (tempo_single_line conv weightOk d c _ _ (load_table_roundtrip _ d c items h)).2.2 t1 t2 w hrows
  constructor <;> intro hw <;> simp [this, hw]

example : loadTempo floatConv weightOkTok .ws (some ['#']) "60 120 0.5\n".toList
    = .ok (("60".toList, "120".toList), "0.5".toList) := by decide +kernel
example : loadTempo floatConv weightOkTok .ws (some ['#']) "60 120 1.5\n".toList = .error .badWeight := by
  decide +kernel
example : loadTempo floatConv weightOkTok .ws (some ['#']) "60 120 .5\n60 120 .5\n".toList = .error .notOneLine := by
  decide +kernel
example : loadTempo floatConv weightOkTok .ws (some ['#']) "# nothing\n".toList = .error .noRow := by decide +kernel
example : loadKey .ws (some ['#']) "C#   minor\n".toList = .ok "C# minor".toList := by decide
example : loadKey .ws (some ['#']) "C major\nD minor\n".toList = .error .notOneLine := by decide

/-! ## ragged time series -/

/-- **ragged round trip, with or without a header row.** Rows with any number of values (zero included ⇒ empty
    array) are loaded as the written times and value lists, in order, comments skipped.  With `header=True` the file
    starts with a header line — ANY text without a newline: a textual header, a comment, even numbers — which is
    not parsed. -/
theorem ragged_roundtrip {α : Type} (tconv vconv : Conv α) (d : Delim) (c : Option (List Char)) (header : Bool)
    (hdr : List Char) (hh : '\n' ∉ hdr) (items : List (RItem α)) (h : ∀ it ∈ items, it.WF tconv vconv d c) :
    loadRagged tconv vconv d header c (withHeader header hdr (renderRagged items)) =
      .ok ((raggedData items).map Prod.fst, (raggedData items).map Prod.snd) := by
  unfold loadRagged
  rw [raggedLines_withHeader header hdr _ hh]
  have hs := splitLines_renderRagged items h []
  simp only [List.append_nil, splitLines] at hs
  rw [hs]
  have := loadRaggedRows_items items h (if header then 1 else 0) []
  simp only [List.append_nil, loadRaggedRows] at this
  rw [this]

example : loadRagged floatConv intConv (.lit [',']) false (some ['#']) "0.0,60,64\n# c\n0.5\n1.0,72\n".toList
    = .ok (["0.0".toList, "0.5".toList, "1.0".toList], [["60".toList, "64".toList], [], ["72".toList]]) := by
  decide
/-- the former defect's witness: a textual header is skipped -/
example : loadRagged floatConv floatConv .ws true (some ['#']) "time f0\n0.0 1.0\n".toList
    = .ok (["0.0".toList], [["1.0".toList]]) := by decide

/-- **`header=True` means: skip the first line.** Loading `hdr\n` followed by `s` with `header=True` is loading `s`
    with `header=False`, except that the row number carried by an error is one more (rows after the header are
    numbered from 1, rows of a header-less file from 0). -/
theorem ragged_header_skipped {α : Type} (tconv vconv : Conv α) (d : Delim) (c : Option (List Char))
    (hdr s : List Char) (hh : '\n' ∉ hdr) :
    loadRagged tconv vconv d true c (hdr ++ '\n' :: s) =
      match loadRagged tconv vconv d false c s with
      | .ok x => .ok x
      | .error e => .error e.shiftRow := by
  unfold loadRagged
  simp only [if_true, Bool.false_eq_true, if_false, splitLines_line hh, List.drop_succ_cons, List.drop_zero]
  rw [loadRaggedRows_shift]
  cases loadRaggedRows tconv vconv d c 0 (splitLines s) with
  | ok rows => rfl
  | error e => rfl

/-- an empty file, or a file holding nothing but an unterminated header, loads as the empty series with
    `header=True` -/
theorem ragged_header_only {α : Type} (tconv vconv : Conv α) (d : Delim) (c : Option (List Char))
    (hdr : List Char) (hh : '\n' ∉ hdr) : loadRagged tconv vconv d true c hdr = .ok ([], []) := by
  unfold loadRagged
  cases hdr with
  | nil => rfl
  | cons x xs => simp [splitLines_last hh (by simp), loadRaggedRows]

example : loadRagged floatConv floatConv .ws true (some ['#']) [] = .ok ([], []) := by decide
example : loadRagged floatConv floatConv .ws true (some ['#']) "time f0\n".toList = .ok ([], []) := by decide

/-- **unparsable time stamp**: the `ValueError` names the line as the loader numbers it: from 0 in a header-less
    file, from 1 after the header row with `header=True`. -/
theorem ragged_bad_time_error {α : Type} (tconv vconv : Conv α) (d : Delim) (c : Option (List Char))
    (header : Bool) (hdr : List Char) (hh : '\n' ∉ hdr)
    (items : List (RItem α)) (h : ∀ it ∈ items, it.WF tconv vconv d c)
    (bad tail : List Char) (hn : '\n' ∉ bad) (hc : isComment c (bad ++ ['\n']) = false)
    (t : List Char) (vs : List (List Char)) (hsplit : reSplit d 0 (stripPy (bad ++ ['\n'])) = t :: vs)
    (ht : tconv t = none) :
    loadRagged tconv vconv d header c (withHeader header hdr (renderRagged items ++ (bad ++ '\n' :: tail))) =
      .error (.convert ((if header then 1 else 0) + items.length) 0) := by
  unfold loadRagged
  rw [raggedLines_withHeader header hdr _ hh, splitLines_renderRagged items h, splitLines_line hn,
    loadRaggedRows_items items h]
  simp [loadRaggedRows, hc, loadRaggedLine, hsplit, ht]

example : loadRagged floatConv floatConv .ws true (some ['#']) "time f0\n0.0 1.0\nx 2\n".toList
    = .error (.convert 2 0) := by decide
example : loadRagged floatConv floatConv .ws false (some ['#']) "0.0 1.0\nx 2\n".toList
    = .error (.convert 1 0) := by decide

/-! ## pattern files -/

/-- **patterns round trip.** Patterns (≥ 1 occurrence each) of occurrences (≥ 1 point each), written as a header
    line containing `pattern`, then per occurrence a line containing `occurrence` (and not `pattern`) and one
    `onset,midi` line per point, are loaded with exactly that nesting and order. -/
theorem patterns_roundtrip {α : Type} (conv : Conv α) (ps : List (PatSpec α)) (h : ∀ p ∈ ps, p.WF conv)
    (hlines : ∀ l ∈ ps.flatMap PatSpec.lines, ∃ t, l = t ++ ['\n'] ∧ '\n' ∉ t) :
    loadPatterns conv (ps.flatMap PatSpec.lines).flatten = .ok (ps.map PatSpec.value) := by
  unfold loadPatterns
  rw [splitLines_flatten _ hlines]
  obtain ⟨st', hrun, hclose⟩ := patRun_patterns ps PatState.init h
  rw [hrun]
  simp only [hclose]
  rfl

/-- a data line written `ta,tb` is a point line as soon as neither text contains a comma or a keyword and the
    converter accepts both texts (`tb` carries the blanks and the newline, which `float` ignores) -/
theorem patterns_point_line {α : Type} (conv : Conv α) (ta tb : List Char) (x y : α)
    (ha : ',' ∉ ta) (hb : ',' ∉ tb)
    (hp : hasSub patKw (ta ++ ',' :: tb) = false) (ho : hasSub occKw (ta ++ ',' :: tb) = false)
    (hx : conv ta = some x) (hy : conv tb = some y) (st : PatState α) :
    patStep conv st (ta ++ ',' :: tb) = .ok ⟨st.list, st.pattern, st.occ ++ [(x, y)]⟩ :=
  patStep_pair (pairLine_render ha hb hp ho hx hy) st

example : loadPatterns floatConv "pattern1\noccurrence1\n0.5, 67.0\n1.0,64\noccurrence2\n4.5, 65\npattern2\noccurrence1\n9, 60\n".toList
    = .ok [[[("0.5".toList, " 67.0\n".toList), ("1.0".toList, "64\n".toList)], [("4.5".toList, " 65\n".toList)]],
           [[("9".toList, " 60\n".toList)]]] := by decide

/-- **malformed rows of a pattern file raise `ValueError`.** A data line (neither header keyword in it) that is
    not a well-formed point line — a single column, or a first or second field that is not a number — makes
    `load_patterns` fail with a `ValueError` (this loader's messages carry no row number). -/
theorem patterns_malformed_row_error {α : Type} (conv : Conv α) (st : PatState α) (line : List Char)
    (hp : hasSub patKw line = false) (ho : hasSub occKw line = false) (hbad : ∀ xy, ¬ PairLine conv line xy) :
    ∃ e, patStep conv st line = .error e ∧ e.toPy = .valueError := by
  match hs : splitComma line with
  | [] => exact ⟨.singleColumn, by simp [patStep, hp, ho, hs], rfl⟩
  | [a] => exact ⟨.singleColumn, by simp [patStep, hp, ho, hs], rfl⟩
  | a :: b :: more =>
    cases ha : conv a with
    | none => exact ⟨.badNumber, by simp [patStep, hp, ho, hs, ha], rfl⟩
    | some x =>
      cases hb : conv b with
      | none => exact ⟨.badNumber, by simp [patStep, hp, ho, hs, ha, hb], rfl⟩
      | some y => exact absurd ⟨hp, ho, a, b, more, hs, ha, hb⟩ (hbad (x, y))

/-- **whatever the file, `load_patterns` fails only with `ValueError`.** -/
theorem patterns_errors_are_valueErrors {α : Type} (conv : Conv α) (s : List Char) (e : LoadErr)
    (h : loadPatterns conv s = .error e) : e.toPy = .valueError := by
  unfold loadPatterns at h
  cases hr : patRun conv PatState.init (splitLines s) with
  | ok st => simp [hr] at h
  | error e' =>
    simp only [hr, Except.error.injEq] at h
    subst h
    exact patRun_error conv _ _ e' hr

/-- the former defect's witness: a one-column row is a `ValueError` now -/
example : loadPatterns floatConv "pattern1\noccurrence1\n1.0\n".toList = .error .singleColumn := by decide
example : (LoadErr.singleColumn).toPy = .valueError := rfl
example : loadPatterns floatConv "pattern1\noccurrence1\nabc, 60\n".toList = .error .badNumber := by decide
/-- the column count is tested before the numbers are parsed -/
example : loadPatterns floatConv "pattern1\noccurrence1\nabc\n".toList = .error .singleColumn := by decide

end Mir.C20
