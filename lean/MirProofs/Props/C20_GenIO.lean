import MirGen.IOLoad
import MirProofs.Lemmas.IOGen
import MirProofs.Props.C20
/-!
  C20 on the code AS TRANSLATED — `lean/MirGen/IOLoad.lean` is regenerated from `mir_eval/io.py` on every run
  (harness/translate/ioload.py); this file proves every translated loader equal to the hand-written loader model
  (`MirModel/IO.lean`) for ALL texts, converters, delimiters and comment markers, and re-states C20's headline
  theorems on the translated definitions.

  Errors are compared through `Mir.PyIO.obs`: a raised exception is what a caller observes of it — its class and the
  row number its message names.  (`LoadErr` additionally carries the column index / the counts, which no message of
  the library's lets a caller read back; `obs` forgets exactly that.)
-/
set_option linter.unusedSimpArgs false   -- the proofs deliberately carry both orientations of commutative tests
namespace Mir.C20.GenIO
open Mir Mir.IO Mir.PyIO

/-! ## `load_delimited` -/

/-- the inner loop (`for value, column, converter in zip(data, columns, converters)`) converts the row as the model
    does and appends each value to its column -/
theorem loop2_eq_convertRow {γ : Type} (n : Nat) : ∀ (data : List (List Char)) (cols : List (List γ))
    (convs : List (Conv γ)) (col : Nat), data.length = convs.length → cols.length = convs.length →
    Mir.Gen.io.load_delimited_loop2 (n : Int) data cols convs =
      obs (match convertRow n col convs data with
           | .ok vals => .ok (snocRow cols vals)
           | .error e => .error e)
  | [], cols, convs, col, hd, hc => by
    cases convs with
    | nil => cases cols with
      | nil => simp [Mir.Gen.io.load_delimited_loop2, convertRow, pure, Except.pure]
      | cons _ _ => simp at hc
    | cons _ _ => simp at hd
  | v :: vs, cols, convs, col, hd, hc => by
    cases convs with
    | nil => simp at hd
    | cons c cs =>
      cases cols with
      | nil => simp at hc
      | cons k ks =>
        have ih := loop2_eq_convertRow n vs ks cs (col + 1) (by simpa using hd) (by simpa using hc)
        simp only [Mir.Gen.io.load_delimited_loop2, convertRow]
        cases hcv : c v with
        | none => simp [raised]
        | some x =>
          simp only [ih]
          cases convertRow n (col + 1) cs vs <;> simp [bind, Except.bind, pure, Except.pure]

/-- the line loop (`for row, line in enumerate(input_file, 1)`) is the model's `loadRows`, the rows being appended to
    the columns as they come -/
theorem loop1_eq_loadRows {γ : Type} (convs : List (Conv γ)) (d : Delim) (c : Option (List Char)) :
    ∀ (lines : List (List Char)) (n : Nat) (cols : List (List γ)), cols.length = convs.length →
    Mir.Gen.io.load_delimited_loop1 c (c.map reCompileStart) d (len convs) convs (n : Int) cols lines =
      obs (match loadRows convs d c n lines with
           | .ok rows => .ok (rows.foldl snocRow cols)
           | .error e => .error e)
  | [], n, cols, _ => by simp [Mir.Gen.io.load_delimited_loop1, loadRows, pure, Except.pure]
  | l :: ls, n, cols, hc => by
    have hn : ((n : Int) + 1) = ((n + 1 : Nat) : Int) := by omega
    simp only [Mir.Gen.io.load_delimited_loop1, loadRows, reMatch_compiled, bind, Except.bind, hn]
    cases hcm : isComment c l with
    | true => simpa using loop1_eq_loadRows convs d c ls (n + 1) cols hc
    | false =>
      simp only [Bool.false_eq_true, if_false, loadLine, reSplitMax, strip, len_eq]
      obtain ⟨data, hdata⟩ : ∃ data, reSplit d ((convs.length : Int) - 1) (stripPy l) = data := ⟨_, rfl⟩
      simp only [hdata]
      by_cases hlen : data.length = convs.length
      · have e1 : decide ((convs.length : Int) = (data.length : Int)) = true := by simp [hlen]
        have e2 : decide ((data.length : Int) = (convs.length : Int)) = true := by simp [hlen]
        simp only [e1, e2, hlen, Bool.not_true, Bool.false_eq_true, if_false, ne_eq, not_true_eq_false]
        rw [loop2_eq_convertRow n _ cols convs 0 hlen hc]
        cases hr : convertRow n 0 convs data with
        | error e => simp
        | ok vals =>
          have hv := convertRow_length n 0 convs _ vals hlen hr
          have ih := loop1_eq_loadRows convs d c ls (n + 1) (snocRow cols vals)
            (by rw [snocRow_length _ _ (by omega)]; exact hc)
          have hn' : ((n + 1 : Nat) : Int) = (n : Int) + 1 := by omega
          simp only [len_eq, hn'] at ih
          simp only [obs_ok, hn', ih]
          cases loadRows convs d c (n + 1) ls <;> simp
      · have e1 : decide ((convs.length : Int) = (data.length : Int)) = false := by
          simp; omega
        have e2 : decide ((data.length : Int) = (convs.length : Int)) = false := by
          simp; omega
        simp [e1, e2, hlen, raised]

/-- **`load_delimited` as translated = the loader model**, for every text, converter list, delimiter and comment
    marker: the same columns (`columns[0]` alone for one converter), the same `ValueError`s naming the same rows. -/
theorem load_delimited_eq_model {γ : Type} (s : List Char) (convs : List (Conv γ)) (d : Delim)
    (c : Option (List Char)) :
    Mir.Gen.io.load_delimited s convs d c = obs ((loadDelimited convs d c s).map Cols.ofList) := by
  have h1 : ((1 : Nat) : Int) = 1 := rfl
  have hloop := loop1_eq_loadRows convs d c (splitLines s) 1 (List.replicate convs.length []) (by simp)
  rw [h1] at hloop
  unfold Mir.Gen.io.load_delimited
  cases c
  all_goals
    simp only [Option.map] at hloop
    simp only [emptyLists_len, reCompile, openLines, bind, Except.bind, pure, Except.pure, hloop, loadDelimited,
      loadTable]
    cases hr : loadRows convs d _ 1 (splitLines s) with
    | error e => simp [Except.map]
    | ok rows =>
      have hlen := loadRows_row_length convs d _ _ 1 rows hr
      simp only [obs_ok, foldl_snocRow_empty convs.length rows hlen, Except.map]
      by_cases hone : convs.length = 1
      · have e1 : decide (len convs = (1 : Int)) = true := by simp [hone]
        have e2 : decide ((1 : Int) = len convs) = true := by simp [hone]
        simp only [e1, e2, if_true, if_false, Bool.not_true, Bool.false_eq_true]
        simp [hone, columns, Cols.ofList]
      · have hl : len convs = (convs.length : Int) := rfl
        have e1 : decide (len convs = (1 : Int)) = false := decide_eq_false (by rw [hl]; omega)
        have e2 : decide ((1 : Int) = len convs) = false := decide_eq_false (by rw [hl]; omega)
        simp only [e1, e2, Bool.false_eq_true, if_false, if_true, Bool.not_false]
        rw [Cols.ofList_of_length_ne_one _ (by rw [columns_length]; exact hone)]

/-! ## the typed wrappers (one call of `load_delimited` + conversion; the validate-then-warn blocks are skipped) -/

/-- what `load_delimited` as translated returns for a table the model loads as `rows` -/
theorem load_delimited_of_table {γ : Type} (s : List Char) (convs : List (Conv γ)) (d : Delim)
    (c : Option (List Char)) :
    Mir.Gen.io.load_delimited s convs d c =
      match loadTable convs d c s with
      | .ok rows => .ok (Cols.ofList (columns convs.length rows))
      | .error e => .error (observe e) := by
  rw [load_delimited_eq_model]
  unfold loadDelimited
  cases loadTable convs d c s <;> rfl

theorem load_events_eq_model {α : Type} (conv : Conv α) (s : List Char) (d : Delim) (c : Option (List Char)) :
    Mir.Gen.io.load_events conv s d c = obs (loadEvents conv d c s) := by
  unfold Mir.Gen.io.load_events loadEvents
  simp only [load_delimited_of_table, bind, Except.bind]
  cases hr : loadTable [numConv conv] d c s with
  | error e => rfl
  | ok rows =>
    have h0 := numAt_of_loadRows hr 0 conv rfl
    simp [columns_one, Cols.ofList, npArrayCols, cellNums_column 0 rows h0, Except.map, pure, Except.pure]

/-- labels are returned as the cells the `str` converter made: `Cell.str` of the model's labels -/
theorem load_labeled_events_eq_model {α : Type} (conv : Conv α) (s : List Char) (d : Delim)
    (c : Option (List Char)) :
    Mir.Gen.io.load_labeled_events conv s d c =
      obs ((loadLabeledEvents conv d c s).map fun (t, l) => (t, l.map Cell.str)) := by
  unfold Mir.Gen.io.load_labeled_events loadLabeledEvents
  simp only [load_delimited_of_table, bind, Except.bind]
  cases hr : loadTable [numConv conv, strConv] d c s with
  | error e => rfl
  | ok rows =>
    have h0 := numAt_of_loadRows hr 0 conv rfl
    have h1 := strAt_of_loadRows hr 1 rfl
    simp [columns_two, Cols.ofList, npArray, cellNums_column 0 rows h0, column_str 1 rows h1, Except.map, pure,
      Except.pure]

theorem load_intervals_eq_model {α : Type} (conv : Conv α) (s : List Char) (d : Delim) (c : Option (List Char)) :
    Mir.Gen.io.load_intervals conv s d c = obs (loadIntervals conv d c s) := by
  unfold Mir.Gen.io.load_intervals loadIntervals
  simp only [load_delimited_of_table, bind, Except.bind]
  cases hr : loadTable [numConv conv, numConv conv] d c s with
  | error e => rfl
  | ok rows =>
    have h0 := numAt_of_loadRows hr 0 conv rfl
    have h1 := numAt_of_loadRows hr 1 conv rfl
    simp [columns_two, Cols.ofList, npPairs_columns 0 1 rows h0 h1, Except.map, pure, Except.pure]

theorem load_labeled_intervals_eq_model {α : Type} (conv : Conv α) (s : List Char) (d : Delim)
    (c : Option (List Char)) :
    Mir.Gen.io.load_labeled_intervals conv s d c =
      obs ((loadLabeledIntervals conv d c s).map fun (iv, l) => (iv, l.map Cell.str)) := by
  unfold Mir.Gen.io.load_labeled_intervals loadLabeledIntervals
  simp only [load_delimited_of_table, bind, Except.bind]
  cases hr : loadTable [numConv conv, numConv conv, strConv] d c s with
  | error e => rfl
  | ok rows =>
    have h0 := numAt_of_loadRows hr 0 conv rfl
    have h1 := numAt_of_loadRows hr 1 conv rfl
    have h2 := strAt_of_loadRows hr 2 rfl
    simp [columns_three, Cols.ofList, npPairs_columns 0 1 rows h0 h1, column_str 2 rows h2, Except.map, pure,
      Except.pure]

theorem load_time_series_eq_model {α : Type} (conv : Conv α) (s : List Char) (d : Delim)
    (c : Option (List Char)) :
    Mir.Gen.io.load_time_series conv s d c = obs (loadTimeSeries conv d c s) := by
  unfold Mir.Gen.io.load_time_series loadTimeSeries
  simp only [load_delimited_of_table, bind, Except.bind]
  cases hr : loadTable [numConv conv, numConv conv] d c s with
  | error e => rfl
  | ok rows =>
    have h0 := numAt_of_loadRows hr 0 conv rfl
    have h1 := numAt_of_loadRows hr 1 conv rfl
    simp [columns_two, Cols.ofList, npArray, cellNums_column 0 rows h0, cellNums_column 1 rows h1, Except.map, pure,
      Except.pure]

theorem load_valued_intervals_eq_model {α : Type} (conv : Conv α) (s : List Char) (d : Delim)
    (c : Option (List Char)) :
    Mir.Gen.io.load_valued_intervals conv s d c = obs (loadValuedIntervals conv d c s) := by
  unfold Mir.Gen.io.load_valued_intervals loadValuedIntervals
  simp only [load_delimited_of_table, bind, Except.bind]
  cases hr : loadTable [numConv conv, numConv conv, numConv conv] d c s with
  | error e => rfl
  | ok rows =>
    have h0 := numAt_of_loadRows hr 0 conv rfl
    have h1 := numAt_of_loadRows hr 1 conv rfl
    have h2 := numAt_of_loadRows hr 2 conv rfl
    simp [columns_three, Cols.ofList, npArray, npPairs_columns 0 1 rows h0 h1, cellNums_column 2 rows h2,
      Except.map, pure, Except.pure]

/-! ## `load_key`, `load_tempo` -/

theorem strConvs_eq {α : Type} :
    ([strConv, strConv] : List (Conv (Cell α))) = [some, some].map (wrapConv Cell.str) := rfl

theorem numConvs_eq {α : Type} (conv : Conv α) :
    ([numConv conv, numConv conv, numConv conv] : List (Conv (Cell α))) =
      [conv, conv, conv].map (wrapConv Cell.num) := rfl

theorem load_key_eq_model (s : List Char) (d : Delim) (c : Option (List Char)) :
    Mir.Gen.io.load_key s d c = obs (loadKey d c s) := by
  unfold Mir.Gen.io.load_key loadKey
  simp only [load_delimited_of_table, bind, Except.bind, strConvs_eq, loadTable_wrap, List.length_map]
  cases hr : loadTable (α := List Char) [some, some] d c s with
  | error e => rfl
  | ok rows =>
    have hlen := loadRows_row_length [some, some] d c _ 1 rows hr
    have h2len : ([some, some] : List (Conv (List Char))).length = 2 := rfl
    simp only [Except.map, h2len, columns_two, column_map, Cols.ofList]
    have hcl : (column rows 0).length = rows.length :=
      column_length rows 0 (fun r h => by rw [hlen r h]; decide)
    match rows, hlen, hcl with
    | [], _, hcl => simp [column, raised]
    | [r], hlen, _ =>
      have h2 : r.length = 2 := hlen r (by simp)
      match r, h2 with
      | [a, b], _ => simp [column, cellStr, index, pure, Except.pure]
    | r1 :: r2 :: rest, hlen, hcl =>
      have e1 : decide (len (List.map Cell.str (column (r1 :: r2 :: rest) 0) : List (Cell Unit)) = (1 : Int)) = false :=
        decide_eq_false (by simp only [len_eq, List.length_map, hcl, List.length_cons]; omega)
      simp only [e1, Bool.not_false, if_true]
      have h2 : r1.length = 2 := hlen r1 (by simp)
      match r1, h2 with
      | [a, b], _ => simp [raised]

/-- `between_ 0 1` is the model's weight test; the two tempi come back as the array `[t1, t2]`, the weight as the
    cell the `float` converter made -/
theorem load_tempo_eq_model {α : Type} (conv : Conv α) (between : Int → Int → α → Bool) (s : List Char)
    (d : Delim) (c : Option (List Char)) :
    Mir.Gen.io.load_tempo conv between s d c =
      obs ((loadTempo conv (between 0 1) d c s).map fun ((a, b), w) => ([a, b], Cell.num w)) := by
  unfold Mir.Gen.io.load_tempo loadTempo
  simp only [load_delimited_of_table, bind, Except.bind, numConvs_eq, loadTable_wrap, List.length_map]
  cases hr : loadTable [conv, conv, conv] d c s with
  | error e => rfl
  | ok rows =>
    have hlen := loadRows_row_length [conv, conv, conv] d c _ 1 rows hr
    have h3len : ([conv, conv, conv] : List (Conv α)).length = 3 := rfl
    simp only [Except.map, h3len, columns_three, column_map, Cols.ofList]
    have hcl : (column rows 0).length = rows.length :=
      column_length rows 0 (fun r h => by rw [hlen r h, h3len]; decide)
    match rows, hlen, hcl with
    | [], _, _ => simp [column, raised]
    | [r], hlen, _ =>
      have h3 : r.length = 3 := hlen r (by simp)
      match r, h3 with
      | [a, b, w], _ =>
        cases hb : between 0 1 w <;>
          simp [column, npConcat2, cellNums, cellNum, cellBetween, index, pure, Except.pure, hb, raised]
    | r1 :: r2 :: rest, hlen, hcl =>
      have e1 : decide (len (List.map Cell.num (column (r1 :: r2 :: rest) 0) : List (Cell α)) = (1 : Int)) = false :=
        decide_eq_false (by simp only [len_eq, List.length_map, hcl, List.length_cons]; omega)
      have h3 : r1.length = 3 := hlen r1 (by simp)
      match r1, h3 with
      | [a, b, w], _ =>
        have hw : index (List.map Cell.num (column ([a, b, w] :: r2 :: rest) 2) : List (Cell α)) 0 = .ok (Cell.num w) := by
          simp [column]
        simp only [hw, npConcat2, cellNums_map_num, e1, Bool.not_false, if_true]
        simp [raised]

/-! ## `load_ragged_time_series` -/

/-- the line loop of `load_ragged_time_series` is the model's `loadRaggedRows`, times and value arrays being
    appended as they come -/
theorem ragged_loop_eq {α : Type} (tconv vconv : Conv α) (d : Delim) (c : Option (List Char)) :
    ∀ (lines : List (List Char)) (n : Nat) (times : List α) (values : List (List α)),
    Mir.Gen.io.load_ragged_time_series_loop1 tconv c (c.map reCompileStart) d vconv (n : Int) times values lines =
      obs (match loadRaggedRows tconv vconv d c n lines with
           | .ok rows => .ok (times ++ rows.map Prod.fst, values ++ rows.map Prod.snd)
           | .error e => .error e)
  | [], n, times, values => by
    simp [Mir.Gen.io.load_ragged_time_series_loop1, loadRaggedRows, pure, Except.pure]
  | l :: ls, n, times, values => by
    have hn : ((n : Int) + 1) = ((n + 1 : Nat) : Int) := by omega
    simp only [Mir.Gen.io.load_ragged_time_series_loop1, loadRaggedRows, reMatch_compiled, bind, Except.bind, hn]
    cases hcm : isComment c l with
    | true => simpa using ragged_loop_eq tconv vconv d c ls (n + 1) times values
    | false =>
      simp only [Bool.false_eq_true, if_false, loadRaggedLine, reSplitAll, strip]
      cases hd : reSplit d 0 (stripPy l) with
      | nil => simp [index, raised]
      | cons t vs =>
        simp only [index_zero_cons, sliceFrom, List.drop_succ_cons, List.drop_zero]
        cases ht : tconv t with
        | none => simp [raised]
        | some tv =>
          cases hv : mapConv vconv vs with
          | none => simp [raised]
          | some vv =>
            simp only [ragged_loop_eq tconv vconv d c ls (n + 1) (times ++ [tv]) (values ++ [vv])]
            cases loadRaggedRows tconv vconv d c (n + 1) ls <;> simp

/-- **`load_ragged_time_series` as translated = the model** (`dtype` = the converter of the value columns, `float` =
    the converter of the time stamps; `header=True` skips the first line and numbers the rest from 1) -/
theorem load_ragged_time_series_eq_model {α : Type} (tconv vconv : Conv α) (s : List Char) (d : Delim)
    (header : Bool) (c : Option (List Char)) :
    Mir.Gen.io.load_ragged_time_series tconv s vconv d header c = obs (loadRagged tconv vconv d header c s) := by
  have h0 : ((0 : Nat) : Int) = 0 := rfl
  have h1 : ((1 : Nat) : Int) = 1 := rfl
  unfold Mir.Gen.io.load_ragged_time_series loadRagged
  cases c <;> cases header <;>
    simp only [reCompile, openLines, skipLine, bind, Except.bind, pure, Except.pure, if_true, if_false,
      Bool.false_eq_true] <;>
    first
      | (have := ragged_loop_eq tconv vconv d none (splitLines s) 0 [] []
         simp only [h0, Option.map] at this
         simp only [this]
         cases loadRaggedRows tconv vconv d none 0 (splitLines s) <;> simp)
      | (have := ragged_loop_eq tconv vconv d none ((splitLines s).drop 1) 1 [] []
         simp only [h1, Option.map] at this
         simp only [this]
         cases loadRaggedRows tconv vconv d none 1 ((splitLines s).drop 1) <;> simp)
      | (rename_i m
         have := ragged_loop_eq tconv vconv d (some m) (splitLines s) 0 [] []
         simp only [h0, Option.map] at this
         simp only [this]
         cases loadRaggedRows tconv vconv d (some m) 0 (splitLines s) <;> simp)
      | (rename_i m
         have := ragged_loop_eq tconv vconv d (some m) ((splitLines s).drop 1) 1 [] []
         simp only [h1, Option.map] at this
         simp only [this]
         cases loadRaggedRows tconv vconv d (some m) 1 ((splitLines s).drop 1) <;> simp)

/-! ## `load_patterns` -/

theorem flush_eq {α : Type} (st : PatState α) :
    (if (!st.occ.isEmpty) = true then st.pattern ++ [st.occ] else st.pattern) = st.flushOcc := by
  unfold PatState.flushOcc
  cases st.occ.isEmpty <;> rfl

theorem close_eq {α : Type} (st : PatState α) :
    (if (!st.flushOcc.isEmpty) = true then st.list ++ [st.flushOcc] else st.list) = st.close := by
  unfold PatState.close
  cases st.flushOcc.isEmpty <;> rfl

/-- the line loop of `load_patterns` is the model's state machine `patRun` -/
theorem patterns_loop_eq {α : Type} (conv : Conv α) : ∀ (lines : List (List Char)) (st : PatState α),
    Mir.Gen.io.load_patterns_loop1 conv st.pattern st.list st.occ lines =
      obs (match patRun conv st lines with
           | .ok st' => .ok (st'.pattern, st'.list, st'.occ)
           | .error e => .error e)
  | [], st => by simp [Mir.Gen.io.load_patterns_loop1, patRun, pure, Except.pure]
  | l :: ls, st => by
    simp only [Mir.Gen.io.load_patterns_loop1, patRun, patStep, contains_pattern, contains_occurrence, bind,
      Except.bind, pure, Except.pure, ite_ok, flush_eq, close_eq]
    cases hpk : hasSub patKw l with
    | true =>
      have ih := patterns_loop_eq conv ls ⟨st.close, [], []⟩
      simp only [if_true]
      exact ih
    | false =>
      simp only [Bool.false_eq_true, if_false]
      cases hok : hasSub occKw l with
      | true =>
        have ih := patterns_loop_eq conv ls ⟨st.list, st.flushOcc, []⟩
        simp only [if_true]
        exact ih
      | false =>
        simp only [Bool.false_eq_true, if_false]
        have hs : strSplit [','] l = splitComma l := rfl
        rw [hs]
        match hsc : splitComma l with
        | [] => simp [raised]
        | [a] => simp [raised]
        | a :: b :: more =>
          have e1 : decide (len (a :: b :: more) < (2 : Int)) = false :=
            decide_eq_false (by simp only [len_eq, List.length_cons]; omega)
          simp only [e1, Bool.false_eq_true, if_false, index_zero_cons, index_one_cons, callConv]
          cases ha : conv a with
          | none => simp [raised]
          | some x =>
            cases hb : conv b with
            | none => simp [raised]
            | some y =>
              have ih := patterns_loop_eq conv ls ⟨st.list, st.pattern, st.occ ++ [(x, y)]⟩
              simp only [ih]

/-- **`load_patterns` as translated = the model** -/
theorem load_patterns_eq_model {α : Type} (conv : Conv α) (s : List Char) :
    Mir.Gen.io.load_patterns conv s = obs (loadPatterns conv s) := by
  unfold Mir.Gen.io.load_patterns loadPatterns
  have := patterns_loop_eq conv (splitLines s) PatState.init
  simp only [PatState.init] at this
  simp only [openLines, bind, Except.bind, pure, Except.pure, this, PatState.init]
  cases patRun conv ⟨[], [], []⟩ (splitLines s) with
  | error e => rfl
  | ok st =>
    simp only [obs_ok, ite_ok, flush_eq, close_eq]

/-! ## C20's headline theorems on the TRANSLATED loaders -/

/-- **round trip, file order** (`load_delimited` as translated): a file of comment lines and well-formed rows loads as
    exactly the encoded columns, rows in file order -/
theorem gen_load_roundtrip {γ : Type} (convs : List (Conv γ)) (d : Delim) (c : Option (List Char))
    (items : List (Item γ)) (h : ∀ it ∈ items, it.WF convs d c) :
    Mir.Gen.io.load_delimited (renderFile items) convs d c =
      .ok (Cols.ofList (columns convs.length (dataRows items))) := by
  rw [load_delimited_eq_model, Mir.C20.load_roundtrip convs d c items h]; rfl

/-- **wrong number of columns ⇒ `ValueError` naming the 1-based row** (as translated) -/
theorem gen_wrong_columns_error {γ : Type} (convs : List (Conv γ)) (d : Delim) (c : Option (List Char))
    (items : List (Item γ)) (h : ∀ it ∈ items, it.WF convs d c)
    (bad tail : List Char) (hn : '\n' ∉ bad) (hc : isComment c (bad ++ ['\n']) = false)
    (hk : (reSplit d ((convs.length : Int) - 1) (stripPy (bad ++ ['\n']))).length ≠ convs.length) :
    Mir.Gen.io.load_delimited (renderFile items ++ (bad ++ '\n' :: tail)) convs d c =
      .error ⟨.valueError, some ((items.length : Int) + 1)⟩ := by
  rw [load_delimited_eq_model, Mir.C20.wrong_columns_error convs d c items h bad tail hn hc hk]
  simp [Except.map, observe, LoadErr.toPy, LoadErr.row?]

/-- **unparsable token ⇒ `ValueError` naming the 1-based row** (as translated) -/
theorem gen_bad_number_error {γ : Type} (convs : List (Conv γ)) (d : Delim) (c : Option (List Char))
    (items : List (Item γ)) (h : ∀ it ∈ items, it.WF convs d c)
    (badLine tail : List Char) (hn : '\n' ∉ badLine) (hc : isComment c (badLine ++ ['\n']) = false)
    (good : List (Fld γ)) (cs1 : List (Conv γ)) (cbad : Conv γ) (cs2 : List (Conv γ))
    (bad : List Char) (extra : List (List Char))
    (hconvs : convs = cs1 ++ cbad :: cs2) (hgood : ConvOK cs1 good) (hbad : cbad bad = none)
    (hsplit : reSplit d ((convs.length : Int) - 1) (stripPy (badLine ++ ['\n'])) = good.map Fld.text ++ bad :: extra)
    (hlen : extra.length = cs2.length) :
    Mir.Gen.io.load_delimited (renderFile items ++ (badLine ++ '\n' :: tail)) convs d c =
      .error ⟨.valueError, some ((items.length : Int) + 1)⟩ := by
  rw [load_delimited_eq_model, Mir.C20.bad_number_error convs d c items h badLine tail hn hc good cs1 cbad cs2 bad
    extra hconvs hgood hbad hsplit hlen]
  simp [Except.map, observe, LoadErr.toPy, LoadErr.row?]

/-- **whatever the file, the translated `load_delimited` fails only with a `ValueError` whose message names a line of
    the file (1-based)** -/
theorem gen_errors_are_valueErrors_naming_a_row {γ : Type} (convs : List (Conv γ)) (d : Delim)
    (c : Option (List Char)) (content : List Char) (e : Raised)
    (h : Mir.Gen.io.load_delimited content convs d c = .error e) :
    e.cls = .valueError ∧ ∃ r : Nat, e.row = some (r : Int) ∧ 1 ≤ r ∧ r ≤ (splitLines content).length := by
  rw [load_delimited_eq_model] at h
  cases hm : loadDelimited convs d c content with
  | ok cols => simp [hm, Except.map] at h
  | error e' =>
    simp only [hm, Except.map, obs_error, Except.error.injEq] at h
    obtain ⟨h1, r, h2, h3, h4⟩ := Mir.C20.errors_are_valueErrors_naming_a_row convs d c content e' hm
    subst h
    exact ⟨h1, r, by simp [observe, h2], h3, h4⟩

/-- **`load_events` as translated**: one number per line comes back in file order -/
theorem gen_load_events_roundtrip {α : Type} (conv : Conv α) (d : Delim) (c : Option (List Char))
    (rows : List (EventRow α)) (h : ∀ it ∈ rows.map EventRow.item, it.WF [numConv conv] d c) :
    Mir.Gen.io.load_events conv (renderFile (rows.map EventRow.item)) d c = .ok (rows.map fun r => r.time.val) := by
  rw [load_events_eq_model, Mir.C20.load_events_roundtrip conv d c rows h]; rfl

/-- **`load_labeled_intervals` as translated**: `(start, stop)` pairs and labels, both in file order -/
theorem gen_load_labeled_intervals_roundtrip {α : Type} (conv : Conv α) (d : Delim) (c : Option (List Char))
    (rows : List (LabeledIntervalRow α))
    (h : ∀ it ∈ rows.map LabeledIntervalRow.item, it.WF [numConv conv, numConv conv, strConv] d c) :
    Mir.Gen.io.load_labeled_intervals conv (renderFile (rows.map LabeledIntervalRow.item)) d c =
      .ok (rows.map (fun r => (r.start.val, r.stop.val)), rows.map (fun r => Cell.str r.label)) := by
  rw [load_labeled_intervals_eq_model, Mir.C20.load_labeled_intervals_roundtrip conv d c rows h]
  simp [Except.map]

/-- **key files as translated**: one two-column row loads as `"scale mode"`; several rows are a `ValueError` -/
theorem gen_key_roundtrip (d : Delim) (c : Option (List Char)) (items : List (Item (List Char)))
    (h : ∀ it ∈ items, it.WF [some, some] d c) (scale mode : List Char)
    (hrows : dataRows items = [[scale, mode]]) :
    Mir.Gen.io.load_key (renderFile items) d c = .ok (scale ++ ' ' :: mode) := by
  rw [load_key_eq_model, Mir.C20.key_roundtrip d c items h scale mode hrows]; rfl

theorem gen_key_not_one_line (d : Delim) (c : Option (List Char)) (s : List Char) (rows : List (List (List Char)))
    (h : loadTable (α := List Char) [some, some] d c s = .ok rows) (hlen : rows.length ≠ 1) :
    Mir.Gen.io.load_key s d c = .error ⟨.valueError, none⟩ := by
  rw [load_key_eq_model, (Mir.C20.key_single_line d c s rows h).2 hlen]; rfl

/-- **tempo files as translated**: the weight test decides between the row and a `ValueError` -/
theorem gen_tempo_weight_range {α : Type} (conv : Conv α) (between : Int → Int → α → Bool) (d : Delim)
    (c : Option (List Char)) (items : List (Item α)) (h : ∀ it ∈ items, it.WF [conv, conv, conv] d c) (t1 t2 w : α)
    (hrows : dataRows items = [[t1, t2, w]]) :
    (between 0 1 w = true →
      Mir.Gen.io.load_tempo conv between (renderFile items) d c = .ok ([t1, t2], Cell.num w)) ∧
    (between 0 1 w = false →
      Mir.Gen.io.load_tempo conv between (renderFile items) d c = .error ⟨.valueError, none⟩) := by
  obtain ⟨h1, h2⟩ := Mir.C20.tempo_weight_range conv (between 0 1) d c items h t1 t2 w hrows
  constructor <;> intro hw
  · rw [load_tempo_eq_model, h1 hw]; rfl
  · rw [load_tempo_eq_model, h2 hw]; rfl

/-- **ragged round trip as translated**, with or without a header row -/
theorem gen_ragged_roundtrip {α : Type} (tconv vconv : Conv α) (d : Delim) (c : Option (List Char)) (header : Bool)
    (hdr : List Char) (hh : '\n' ∉ hdr) (items : List (RItem α)) (h : ∀ it ∈ items, it.WF tconv vconv d c) :
    Mir.Gen.io.load_ragged_time_series tconv (withHeader header hdr (renderRagged items)) vconv d header c =
      .ok ((raggedData items).map Prod.fst, (raggedData items).map Prod.snd) := by
  rw [load_ragged_time_series_eq_model, Mir.C20.ragged_roundtrip tconv vconv d c header hdr hh items h]; rfl

/-- **unparsable time stamp as translated**: `ValueError` naming the line as the loader numbers it (from 0, or from 1
    after a header row) -/
theorem gen_ragged_bad_time_error {α : Type} (tconv vconv : Conv α) (d : Delim) (c : Option (List Char))
    (header : Bool) (hdr : List Char) (hh : '\n' ∉ hdr)
    (items : List (RItem α)) (h : ∀ it ∈ items, it.WF tconv vconv d c)
    (bad tail : List Char) (hn : '\n' ∉ bad) (hc : isComment c (bad ++ ['\n']) = false)
    (t : List Char) (vs : List (List Char)) (hsplit : reSplit d 0 (stripPy (bad ++ ['\n'])) = t :: vs)
    (ht : tconv t = none) :
    Mir.Gen.io.load_ragged_time_series tconv
        (withHeader header hdr (renderRagged items ++ (bad ++ '\n' :: tail))) vconv d header c =
      .error ⟨.valueError, some (((if header then 1 else 0) + items.length : Nat) : Int)⟩ := by
  rw [load_ragged_time_series_eq_model,
    Mir.C20.ragged_bad_time_error tconv vconv d c header hdr hh items h bad tail hn hc t vs hsplit ht]
  rfl

/-- **patterns round trip as translated** -/
theorem gen_patterns_roundtrip {α : Type} (conv : Conv α) (ps : List (PatSpec α)) (h : ∀ p ∈ ps, p.WF conv)
    (hlines : ∀ l ∈ ps.flatMap PatSpec.lines, ∃ t, l = t ++ ['\n'] ∧ '\n' ∉ t) :
    Mir.Gen.io.load_patterns conv (ps.flatMap PatSpec.lines).flatten = .ok (ps.map PatSpec.value) := by
  rw [load_patterns_eq_model, Mir.C20.patterns_roundtrip conv ps h hlines]; rfl

/-- **whatever the file, the translated `load_patterns` fails only with `ValueError`** -/
theorem gen_patterns_errors_are_valueErrors {α : Type} (conv : Conv α) (s : List Char) (e : Raised)
    (h : Mir.Gen.io.load_patterns conv s = .error e) : e.cls = .valueError := by
  rw [load_patterns_eq_model] at h
  cases hm : loadPatterns conv s with
  | ok v => simp [hm] at h
  | error e' =>
    simp only [hm, obs_error, Except.error.injEq] at h
    subst h
    exact Mir.C20.patterns_errors_are_valueErrors conv s e' hm

/-! ## non-vacuity: the translated loaders run (the driver's converters; numbers come back as their tokens) -/

example : Mir.Gen.io.load_delimited "# c\n0.5 kick\n 1e0\t#snare drum \n".toList [numConv floatConv, strConv] .ws
    (some ['#']) = .ok (.many [[.num "0.5".toList, .num "1e0".toList], [.str "kick".toList, .str "#snare drum".toList]]) := by
  decide
example : Mir.Gen.io.load_delimited "0 1\n#c\n2 x\n".toList [numConv floatConv, numConv floatConv] .ws (some ['#'])
    = .error ⟨.valueError, some 3⟩ := by decide
example : Mir.Gen.io.load_delimited "0 1\n2\n3 4\n".toList [numConv floatConv, numConv floatConv] .ws (some ['#'])
    = .error ⟨.valueError, some 2⟩ := by decide
example : Mir.Gen.io.load_events floatConv "# beats\n0.5\n 1.0 \n1.5".toList .ws (some ['#'])
    = .ok ["0.5".toList, "1.0".toList, "1.5".toList] := by decide
example : Mir.Gen.io.load_labeled_intervals floatConv "0.0 1.5 N\n1.5\t3e0  C:maj(9) / 3 \n".toList .ws (some ['#'])
    = .ok ([("0.0".toList, "1.5".toList), ("1.5".toList, "3e0".toList)], [.str "N".toList, .str "C:maj(9) / 3".toList]) := by
  decide
example : Mir.Gen.io.load_key "C#   minor\n".toList .ws (some ['#']) = .ok "C# minor".toList := by decide
example : Mir.Gen.io.load_key "C major\nD minor\n".toList .ws (some ['#']) = .error ⟨.valueError, none⟩ := by decide
example : Mir.Gen.io.load_tempo floatConv betweenTok "60 120 0.5\n".toList .ws (some ['#'])
    = .ok (["60".toList, "120".toList], .num "0.5".toList) := by decide +kernel
example : Mir.Gen.io.load_tempo floatConv betweenTok "60 120 1.5\n".toList .ws (some ['#'])
    = .error ⟨.valueError, none⟩ := by decide +kernel
example : Mir.Gen.io.load_tempo floatConv betweenTok "# nothing\n".toList .ws (some ['#'])
    = .error ⟨.indexError, none⟩ := by decide +kernel
example : Mir.Gen.io.load_ragged_time_series floatConv "time f0\n0.0 1.0\nx 2\n".toList floatConv .ws true (some ['#'])
    = .error ⟨.valueError, some 2⟩ := by decide
example : Mir.Gen.io.load_ragged_time_series floatConv "0.0,60,64\n# c\n0.5\n1.0,72\n".toList intConv (.lit [',']) false
    (some ['#']) = .ok (["0.0".toList, "0.5".toList, "1.0".toList], [["60".toList, "64".toList], [], ["72".toList]]) := by
  decide
example : Mir.Gen.io.load_patterns floatConv "pattern1\noccurrence1\n0.5, 67.0\noccurrence2\n4.5, 65\n".toList
    = .ok [[[("0.5".toList, " 67.0\n".toList)], [("4.5".toList, " 65\n".toList)]]] := by decide
example : Mir.Gen.io.load_patterns floatConv "pattern1\noccurrence1\n1.0\n".toList = .error ⟨.valueError, none⟩ := by
  decide

end Mir.C20.GenIO
