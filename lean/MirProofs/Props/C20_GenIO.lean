import MirGen.IOLoad
import MirProofs.Lemmas.IOGen
import MirProofs.Props.C20
/-!
  C20 on the code AS TRANSLATED — `lean/MirGen/IOLoad.lean` is regenerated from `mir_eval/io.py` on every run
  (harness/translate/ioload.py); this file proves every translated loader equal to the hand-written loader model
  (`MirModel/IO.lean`) for ALL texts, converters, delimiters and comment markers, and re-states C20's headline
  theorems on the translated definitions.

  Errors are compared through `Mir.PyIO.obs`: a raised exception is what a caller observes of it — its class and the
  row number its message names.  (`LoadErr` additionally carries the column index / the counts, which no message of
  the library's lets a caller read back; `obs` forgets exactly that.)
-/
set_option linter.unusedSimpArgs false   -- the proofs deliberately carry both orientations of commutative tests
namespace Mir.C20.GenIO
open Mir Mir.IO Mir.PyIO

/-! ## `load_delimited` -/

/-- the inner loop (`for value, column, converter in zip(data, columns, converters)`) converts the row as the model
    does and appends each value to its column -/
theorem loop2_eq_convertRow {γ : Type} (n : Nat) : ∀ (data : List (List Char)) (cols : List (List γ))
    (convs : List (Conv γ)) (col : Nat), data.length = convs.length → cols.length = convs.length →
    Mir.Gen.io.load_delimited_loop2 (n : Int) data cols convs =
      obs (match convertRow n col convs data with
           | .ok vals => .ok (snocRow cols vals)
           | .error e => .error e)
  | [], cols, convs, col, hd, hc => by
    cases convs with
    | nil => cases cols with
      | nil => simp [Mir.Gen.io.load_delimited_loop2, convertRow, pure, Except.pure]
      | cons _ _ => simp at hc
    | cons _ _ => simp at hd
  | v :: vs, cols, convs, col, hd, hc => by
    cases convs with
    | nil => simp at hd
    | cons c cs =>
      cases cols with
      | nil => simp at hc
      | cons k ks =>
        have ih := loop2_eq_convertRow n vs ks cs (col + 1) (by simpa using hd) (by simpa using hc)
        simp only [Mir.Gen.io.load_delimited_loop2, convertRow]
        cases hcv : c v with
        | none => simp [raised]
        | some x =>
          simp only [ih]
          cases convertRow n (col + 1) cs vs <;> simp [bind, Except.bind, pure, Except.pure]

/-- the line loop (`for row, line in enumerate(input_file, 1)`) is the model's `loadRows`, the rows being appended to
    the columns as they come -/
theorem loop1_eq_loadRows {γ : Type} (convs : List (Conv γ)) (d : Delim) (c : Option (List Char)) :
    ∀ (lines : List (List Char)) (n : Nat) (cols : List (List γ)), cols.length = convs.length →
    Mir.Gen.io.load_delimited_loop1 c (c.map reCompileStart) d (len convs) convs (n : Int) cols lines =
      obs (match loadRows convs d c n lines with
           | .ok rows => .ok (rows.foldl snocRow cols)
           | .error e => .error e)
  | [], n, cols, _ => by simp [Mir.Gen.io.load_delimited_loop1, loadRows, pure, Except.pure]
  | l :: ls, n, cols, hc => by
    have hn : ((n : Int) + 1) = ((n + 1 : Nat) : Int) := by omega
    simp only [Mir.Gen.io.load_delimited_loop1, loadRows, reMatch_compiled, bind, Except.bind, hn]
    cases hcm : isComment c l with
    | true => simpa using loop1_eq_loadRows convs d c ls (n + 1) cols hc
    | false =>
      simp only [Bool.false_eq_true, if_false, loadLine, reSplitMax, strip, len_eq]
      obtain ⟨data, hdata⟩ : ∃ data, reSplit d ((convs.length : Int) - 1) (stripPy l) = data := ⟨_, rfl⟩
      simp only [hdata]
      by_cases hlen : data.length = convs.length
      · have e1 : decide ((convs.length : Int) = (data.length : Int)) = true := by simp [hlen]
        have e2 : decide ((data.length : Int) = (convs.length : Int)) = true := by simp [hlen]
        simp only [e1, e2, hlen, Bool.not_true, Bool.false_eq_true, if_false, ne_eq, not_true_eq_false]
        rw [loop2_eq_convertRow n _ cols convs 0 hlen hc]
        cases hr : convertRow n 0 convs data with
        | error e => simp
        | ok vals =>
          have hv := convertRow_length n 0 convs _ vals hlen hr
          have ih := loop1_eq_loadRows convs d c ls (n + 1) (snocRow cols vals)
            (by rw [snocRow_length _ _ (by omega)]; exact hc)
          have hn' : ((n + 1 : Nat) : Int) = (n : Int) + 1 := by omega
          simp only [len_eq, hn'] at ih
          simp only [obs_ok, hn', ih]
          cases loadRows convs d c (n + 1) ls <;> simp
      · have e1 : decide ((convs.length : Int) = (data.length : Int)) = false := by
          simp; omega
        have e2 : decide ((data.length : Int) = (convs.length : Int)) = false := by
          simp; omega
        simp [e1, e2, hlen, raised]

/-- **`load_delimited` as translated = the loader model**, for every text, converter list, delimiter and comment
    marker: the same columns (`columns[0]` alone for one converter), the same `ValueError`s naming the same rows. -/
theorem load_delimited_eq_model {γ : Type} (s : List Char) (convs : List (Conv γ)) (d : Delim)
    (c : Option (List Char)) :
    Mir.Gen.io.load_delimited s convs d c = obs ((loadDelimited convs d c s).map Cols.ofList) := by
  have h1 : ((1 : Nat) : Int) = 1 := rfl
  have hloop := loop1_eq_loadRows convs d c (splitLines s) 1 (List.replicate convs.length []) (by simp)
  rw [h1] at hloop
  unfold Mir.Gen.io.load_delimited
  cases c
  all_goals
    simp only [Option.map] at hloop
    simp only [emptyLists_len, reCompile, openLines, bind, Except.bind, pure, Except.pure, hloop, loadDelimited,
      loadTable]
    cases hr : loadRows convs d _ 1 (splitLines s) with
    | error e => simp [Except.map]
    | ok rows =>
      have hlen := loadRows_row_length convs d _ _ 1 rows hr
      simp only [obs_ok, foldl_snocRow_empty convs.length rows hlen, Except.map]
      by_cases hone : convs.length = 1
      · have e1 : decide (len convs = (1 : Int)) = true := by simp [hone]
        have e2 : decide ((1 : Int) = len convs) = true := by simp [hone]
        simp only [e1, e2, if_true]
        simp [hone, columns, Cols.ofList]
      · have hl : len convs = (convs.length : Int) := rfl
        have e1 : decide (len convs = (1 : Int)) = false := decide_eq_false (by rw [hl]; omega)
        have e2 : decide ((1 : Int) = len convs) = false := decide_eq_false (by rw [hl]; omega)
        simp only [e1, e2, Bool.false_eq_true, if_false]
        rw [Cols.ofList_of_length_ne_one _ (by rw [columns_length]; exact hone)]
