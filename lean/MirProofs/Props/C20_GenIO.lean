import MirGen.IOLoad
import MirProofs.Lemmas.IOGen
import MirProofs.Props.C20
/-!
  C20 on the code AS TRANSLATED — `lean/MirGen/IOLoad.lean` is regenerated from `mir_eval/io.py` on every run
  (harness/translate/ioload.py); this file proves every translated loader equal to the hand-written loader model
  (`MirModel/IO.lean`) for ALL texts, converters, delimiters and comment markers, and re-states C20's headline
  theorems on the translated definitions.

  Errors are compared through `Mir.PyIO.obs`: a raised exception is what a caller observes of it — its class and the
  row number its message names.  (`LoadErr` additionally carries the column index / the counts, which no message of
  the library's lets a caller read back; `obs` forgets exactly that.)
-/
set_option linter.unusedSimpArgs false   -- the proofs deliberately carry both orientations of commutative tests
namespace Mir.C20.GenIO
open Mir Mir.IO Mir.PyIO

/-! ## `load_delimited` -/

/-- the inner loop (`for value, column, converter in zip(data, columns, converters)`) converts the row as the model
    does and appends each value to its column -/
theorem loop2_eq_convertRow {γ : Type} (n : Nat) : ∀ (data : List (List Char)) (cols : List (List γ))
    (convs : List (Conv γ)) (col : Nat), data.length = convs.length → cols.length = convs.length →
    Mir.Gen.io.load_delimited_loop2 (n : Int) data cols convs =
      obs (match convertRow n col convs data with
           | .ok vals => .ok (snocRow cols vals)
           | .error e => .error e)
  | [], cols, convs, col, hd, hc => by
    cases convs with
    | nil => cases cols with
      | nil => simp [Mir.Gen.io.load_delimited_loop2, convertRow, pure, Except.pure]
      | cons _ _ => simp at hc
    | cons _ _ => simp at hd
  | v :: vs, cols, convs, col, hd, hc => by
    cases convs with
    | nil => simp at hd
    | cons c cs =>
      cases cols with
      | nil => simp at hc
      | cons k ks =>
        have ih := loop2_eq_convertRow n vs ks cs (col + 1) (by simpa using hd) (by simpa using hc)
        simp only [Mir.Gen.io.load_delimited_loop2, convertRow]
        cases hcv : c v with
        | none => simp [raised]
        | some x =>
          simp only [ih]
          cases convertRow n (col + 1) cs vs <;> simp [bind, Except.bind, pure, Except.pure]

/-- the line loop (`for row, line in enumerate(input_file, 1)`) is the model's `loadRows`, the rows being appended to
    the columns as they come -/
theorem loop1_eq_loadRows {γ : Type} (convs : List (Conv γ)) (d : Delim) (c : Option (List Char)) :
    ∀ (lines : List (List Char)) (n : Nat) (cols : List (List γ)), cols.length = convs.length →
    Mir.Gen.io.load_delimited_loop1 c (c.map reCompileStart) d (len convs) convs (n : Int) cols lines =
      obs (match loadRows convs d c n lines with
           | .ok rows => .ok (rows.foldl snocRow cols)
           | .error e => .error e)
  | [], n, cols, _ => by simp [Mir.Gen.io.load_delimited_loop1, loadRows, pure, Except.pure]
  | l :: ls, n, cols, hc => by
    have hn : ((n : Int) + 1) = ((n + 1 : Nat) : Int) := by omega
    simp only [Mir.Gen.io.load_delimited_loop1, loadRows, reMatch_compiled, bind, Except.bind, hn]
    cases hcm : isComment c l with
    | true => simpa using loop1_eq_loadRows convs d c ls (n + 1) cols hc
    | false =>
      simp only [Bool.false_eq_true, if_false, loadLine, reSplitMax, strip, len_eq]
      obtain ⟨data, hdata⟩ : ∃ data, reSplit d ((convs.length : Int) - 1) (stripPy l) = data := ⟨_, rfl⟩
      simp only [hdata]
      by_cases hlen : data.length = convs.length
      · have e1 : decide ((convs.length : Int) = (data.length : Int)) = true := by simp [hlen]
        have e2 : decide ((data.length : Int) = (convs.length : Int)) = true := by simp [hlen]
        simp only [e1, e2, hlen, Bool.not_true, Bool.false_eq_true, if_false, ne_eq, not_true_eq_false]
        rw [loop2_eq_convertRow n _ cols convs 0 hlen hc]
        cases hr : convertRow n 0 convs data with
        | error e => simp
        | ok vals =>
          have hv := convertRow_length n 0 convs _ vals hlen hr
          have ih := loop1_eq_loadRows convs d c ls (n + 1) (snocRow cols vals)
            (by rw [snocRow_length _ _ (by omega)]; exact hc)
          have hn' : ((n + 1 : Nat) : Int) = (n : Int) + 1 := by omega
          simp only [len_eq, hn'] at ih
          simp only [obs_ok, hn', ih]
          cases loadRows convs d c (n + 1) ls <;> simp
      · have e1 : decide ((convs.length : Int) = (data.length : Int)) = false := by
          simp; omega
        have e2 : decide ((data.length : Int) = (convs.length : Int)) = false := by
          simp; omega
        simp [e1, e2, hlen, raised]

/-- **`load_delimited` as translated = the loader model**, for every text, converter list, delimiter and comment
    marker: the same columns (`columns[0]` alone for one converter), the same `ValueError`s naming the same rows. -/
theorem load_delimited_eq_model {γ : Type} (s : List Char) (convs : List (Conv γ)) (d : Delim)
    (c : Option (List Char)) :
    Mir.Gen.io.load_delimited s convs d c = obs ((loadDelimited convs d c s).map Cols.ofList) := by
  have h1 : ((1 : Nat) : Int) = 1 := rfl
  have hloop := loop1_eq_loadRows convs d c (splitLines s) 1 (List.replicate convs.length []) (by simp)
  rw [h1] at hloop
  unfold Mir.Gen.io.load_delimited
  cases c
  all_goals
    simp only [Option.map] at hloop
    simp only [emptyLists_len, reCompile, openLines, bind, Except.bind, pure, Except.pure, hloop, loadDelimited,
      loadTable]
    cases hr : loadRows convs d _ 1 (splitLines s) with
    | error e => simp [Except.map]
    | ok rows =>
      have hlen := loadRows_row_length convs d _ _ 1 rows hr
      simp only [obs_ok, foldl_snocRow_empty convs.length rows hlen, Except.map]
      by_cases hone : convs.length = 1
      · have e1 : decide (len convs = (1 : Int)) = true := by simp [hone]
        have e2 : decide ((1 : Int) = len convs) = true := by simp [hone]
        simp only [e1, e2, if_true]
        simp [hone, columns, Cols.ofList]
      · have hl : len convs = (convs.length : Int) := rfl
        have e1 : decide (len convs = (1 : Int)) = false := decide_eq_false (by rw [hl]; omega)
        have e2 : decide ((1 : Int) = len convs) = false := decide_eq_false (by rw [hl]; omega)
        simp only [e1, e2, Bool.false_eq_true, if_false]
        rw [Cols.ofList_of_length_ne_one _ (by rw [columns_length]; exact hone)]

/-! ## the typed wrappers (one call of `load_delimited` + conversion; the validate-then-warn blocks are skipped) -/

/-- what `load_delimited` as translated returns for a table the model loads as `rows` -/
theorem load_delimited_of_table {γ : Type} (s : List Char) (convs : List (Conv γ)) (d : Delim)
    (c : Option (List Char)) :
    Mir.Gen.io.load_delimited s convs d c =
      match loadTable convs d c s with
      | .ok rows => .ok (Cols.ofList (columns convs.length rows))
      | .error e => .error (observe e) := by
  rw [load_delimited_eq_model]
  unfold loadDelimited
  cases loadTable convs d c s <;> rfl

theorem load_events_eq_model {α : Type} (conv : Conv α) (s : List Char) (d : Delim) (c : Option (List Char)) :
    Mir.Gen.io.load_events conv s d c = obs (loadEvents conv d c s) := by
  unfold Mir.Gen.io.load_events loadEvents
  simp only [load_delimited_of_table, bind, Except.bind]
  cases hr : loadTable [numConv conv] d c s with
  | error e => rfl
  | ok rows =>
    have h0 := numAt_of_loadRows hr 0 conv rfl
    simp [columns_one, Cols.ofList, npArrayCols, cellNums_column 0 rows h0, Except.map, pure, Except.pure]

/-- labels are returned as the cells the `str` converter made: `Cell.str` of the model's labels -/
theorem load_labeled_events_eq_model {α : Type} (conv : Conv α) (s : List Char) (d : Delim)
    (c : Option (List Char)) :
    Mir.Gen.io.load_labeled_events conv s d c =
      obs ((loadLabeledEvents conv d c s).map fun (t, l) => (t, l.map Cell.str)) := by
  unfold Mir.Gen.io.load_labeled_events loadLabeledEvents
  simp only [load_delimited_of_table, bind, Except.bind]
  cases hr : loadTable [numConv conv, strConv] d c s with
  | error e => rfl
  | ok rows =>
    have h0 := numAt_of_loadRows hr 0 conv rfl
    have h1 := strAt_of_loadRows hr 1 rfl
    simp [columns_two, Cols.ofList, npArray, cellNums_column 0 rows h0, column_str 1 rows h1, Except.map, pure,
      Except.pure]

theorem load_intervals_eq_model {α : Type} (conv : Conv α) (s : List Char) (d : Delim) (c : Option (List Char)) :
    Mir.Gen.io.load_intervals conv s d c = obs (loadIntervals conv d c s) := by
  unfold Mir.Gen.io.load_intervals loadIntervals
  simp only [load_delimited_of_table, bind, Except.bind]
  cases hr : loadTable [numConv conv, numConv conv] d c s with
  | error e => rfl
  | ok rows =>
    have h0 := numAt_of_loadRows hr 0 conv rfl
    have h1 := numAt_of_loadRows hr 1 conv rfl
    simp [columns_two, Cols.ofList, npPairs_columns 0 1 rows h0 h1, Except.map, pure, Except.pure]

theorem load_labeled_intervals_eq_model {α : Type} (conv : Conv α) (s : List Char) (d : Delim)
    (c : Option (List Char)) :
    Mir.Gen.io.load_labeled_intervals conv s d c =
      obs ((loadLabeledIntervals conv d c s).map fun (iv, l) => (iv, l.map Cell.str)) := by
  unfold Mir.Gen.io.load_labeled_intervals loadLabeledIntervals
  simp only [load_delimited_of_table, bind, Except.bind]
  cases hr : loadTable [numConv conv, numConv conv, strConv] d c s with
  | error e => rfl
  | ok rows =>
    have h0 := numAt_of_loadRows hr 0 conv rfl
    have h1 := numAt_of_loadRows hr 1 conv rfl
    have h2 := strAt_of_loadRows hr 2 rfl
    simp [columns_three, Cols.ofList, npPairs_columns 0 1 rows h0 h1, column_str 2 rows h2, Except.map, pure,
      Except.pure]

theorem load_time_series_eq_model {α : Type} (conv : Conv α) (s : List Char) (d : Delim)
    (c : Option (List Char)) :
    Mir.Gen.io.load_time_series conv s d c = obs (loadTimeSeries conv d c s) := by
  unfold Mir.Gen.io.load_time_series loadTimeSeries
  simp only [load_delimited_of_table, bind, Except.bind]
  cases hr : loadTable [numConv conv, numConv conv] d c s with
  | error e => rfl
  | ok rows =>
    have h0 := numAt_of_loadRows hr 0 conv rfl
    have h1 := numAt_of_loadRows hr 1 conv rfl
    simp [columns_two, Cols.ofList, npArray, cellNums_column 0 rows h0, cellNums_column 1 rows h1, Except.map, pure,
      Except.pure]

theorem load_valued_intervals_eq_model {α : Type} (conv : Conv α) (s : List Char) (d : Delim)
    (c : Option (List Char)) :
    Mir.Gen.io.load_valued_intervals conv s d c = obs (loadValuedIntervals conv d c s) := by
  unfold Mir.Gen.io.load_valued_intervals loadValuedIntervals
  simp only [load_delimited_of_table, bind, Except.bind]
  cases hr : loadTable [numConv conv, numConv conv, numConv conv] d c s with
  | error e => rfl
  | ok rows =>
    have h0 := numAt_of_loadRows hr 0 conv rfl
    have h1 := numAt_of_loadRows hr 1 conv rfl
    have h2 := numAt_of_loadRows hr 2 conv rfl
    simp [columns_three, Cols.ofList, npArray, npPairs_columns 0 1 rows h0 h1, cellNums_column 2 rows h2,
      Except.map, pure, Except.pure]

/-! ## `load_key`, `load_tempo` -/

theorem strConvs_eq {α : Type} :
    ([strConv, strConv] : List (Conv (Cell α))) = [some, some].map (wrapConv Cell.str) := rfl

theorem numConvs_eq {α : Type} (conv : Conv α) :
    ([numConv conv, numConv conv, numConv conv] : List (Conv (Cell α))) =
      [conv, conv, conv].map (wrapConv Cell.num) := rfl

theorem load_key_eq_model (s : List Char) (d : Delim) (c : Option (List Char)) :
    Mir.Gen.io.load_key s d c = obs (loadKey d c s) := by
  unfold Mir.Gen.io.load_key loadKey
  simp only [load_delimited_of_table, bind, Except.bind, strConvs_eq, loadTable_wrap, List.length_map]
  cases hr : loadTable (α := List Char) [some, some] d c s with
  | error e => rfl
  | ok rows =>
    have hlen := loadRows_row_length [some, some] d c _ 1 rows hr
    have h2len : ([some, some] : List (Conv (List Char))).length = 2 := rfl
    simp only [Except.map, h2len, columns_two, column_map, Cols.ofList]
    have hcl : (column rows 0).length = rows.length :=
      column_length rows 0 (fun r h => by rw [hlen r h]; decide)
    match rows, hlen, hcl with
    | [], _, hcl => simp [column, raised]
    | [r], hlen, _ =>
      have h2 : r.length = 2 := hlen r (by simp)
      match r, h2 with
      | [a, b], _ => simp [column, cellStr, index, pure, Except.pure]
    | r1 :: r2 :: rest, hlen, hcl =>
      have e1 : decide (len (List.map Cell.str (column (r1 :: r2 :: rest) 0) : List (Cell Unit)) = (1 : Int)) = false :=
        decide_eq_false (by simp only [len_eq, List.length_map, hcl, List.length_cons]; omega)
      simp only [e1, Bool.not_false, if_true]
      have h2 : r1.length = 2 := hlen r1 (by simp)
      match r1, h2 with
      | [a, b], _ => simp [raised]

/-- `between_ 0 1` is the model's weight test; the two tempi come back as the array `[t1, t2]`, the weight as the
    cell the `float` converter made -/
theorem load_tempo_eq_model {α : Type} (conv : Conv α) (between : Int → Int → α → Bool) (s : List Char)
    (d : Delim) (c : Option (List Char)) :
    Mir.Gen.io.load_tempo conv between s d c =
      obs ((loadTempo conv (between 0 1) d c s).map fun ((a, b), w) => ([a, b], Cell.num w)) := by
  unfold Mir.Gen.io.load_tempo loadTempo
  simp only [load_delimited_of_table, bind, Except.bind, numConvs_eq, loadTable_wrap, List.length_map]
  cases hr : loadTable [conv, conv, conv] d c s with
  | error e => rfl
  | ok rows =>
    have hlen := loadRows_row_length [conv, conv, conv] d c _ 1 rows hr
    have h3len : ([conv, conv, conv] : List (Conv α)).length = 3 := rfl
    simp only [Except.map, h3len, columns_three, column_map, Cols.ofList]
    have hcl : (column rows 0).length = rows.length :=
      column_length rows 0 (fun r h => by rw [hlen r h, h3len]; decide)
    match rows, hlen, hcl with
    | [], _, _ => simp [column, raised]
    | [r], hlen, _ =>
      have h3 : r.length = 3 := hlen r (by simp)
      match r, h3 with
      | [a, b, w], _ =>
        cases hb : between 0 1 w <;>
          simp [column, npConcat2, cellNums, cellNum, cellBetween, index, pure, Except.pure, hb, raised]
    | r1 :: r2 :: rest, hlen, hcl =>
      have e1 : decide (len (List.map Cell.num (column (r1 :: r2 :: rest) 0) : List (Cell α)) = (1 : Int)) = false :=
        decide_eq_false (by simp only [len_eq, List.length_map, hcl, List.length_cons]; omega)
      have h3 : r1.length = 3 := hlen r1 (by simp)
      match r1, h3 with
      | [a, b, w], _ =>
        have hw : index (List.map Cell.num (column ([a, b, w] :: r2 :: rest) 2) : List (Cell α)) 0 = .ok (Cell.num w) := by
          simp [column]
        simp only [hw, npConcat2, cellNums_map_num, e1, Bool.not_false, if_true]
        simp [raised]
