import MirProofs.Lemmas.Scores
/-! Exemplar Props file (used by harness/props/example.py to show the interfaces). -/
namespace Mir.Example

/-- `util.f_measure` maps [0,1]² into [0,1] for every beta. -/
theorem f_measure_range (p r b : Rat) (hp0 : 0 ≤ p) (hr0 : 0 ≤ r) (hp : p ≤ 1) (hr : r ≤ 1) :
    0 ≤ fMeasure p r b ∧ fMeasure p r b ≤ 1 :=
  ⟨fMeasure_nonneg hp0 hr0, fMeasure_le_one hp0 hr0 hp hr⟩

/-- non-vacuity: the hypotheses are satisfiable at a non-trivial point -/
example : (0:Rat) ≤ 1/2 ∧ (1/2:Rat) ≤ 1 ∧ fMeasure (1/2) (1/3) 1 = 2/5 := by
  refine ⟨by decide +kernel, by decide +kernel, by decide +kernel⟩

end Mir.Example
