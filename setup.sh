#!/bin/bash
# MANIFEST.setup_cmd: build the Lean project (model, generated files as committed = those of the unchanged tree,
# every proof module, the native model driver).  Each ./check run regenerates lean/MirGen from /repo's working tree and
# rebuilds what changed, so this step only warms the build.  If some proof module does not build here, that is
# reported by the checks that own it (as a broken obligation); setup only insists on the model and the driver.
HERE="$(cd "$(dirname "${BASH_SOURCE[0]}")" && pwd)"
cd "$HERE/lean" || exit 2
if lake build; then
  exit 0
fi
echo "[setup] full build failed; building the model and the driver only (the owning checks will report the rest)" >&2
lake build MirModel MirGen mirdriver
