#!/usr/bin/env python3
"""Fills the generated tables of DESIGN.md Part I from the repository's own data (Props files, props modules,
known_findings.json, seeded/*/meta.json) and assembles DESIGN.md = DESIGN_PART1.md + docs/DESIGN_PART2.md."""
import glob
import json
import os
import re
import sys

V = os.path.dirname(os.path.dirname(os.path.abspath(__file__)))
sys.path.insert(0, os.path.join(V, "harness"))
import manifest_gen  # noqa: E402


def theorem_counts():
    cnt = {}
    for f in sorted(glob.glob(os.path.join(V, "lean/MirProofs/Props/C*.lean"))):
        pid = os.path.basename(f)[:3]
        n = len(re.findall(r"^theorem ", open(f).read(), flags=re.M))
        cnt.setdefault(pid, []).append((os.path.basename(f)[:-5], n))
    return cnt


def unproved(pid):
    f = os.path.join(V, "harness/props/%s.py" % pid.lower())
    src = open(f).read()
    m = re.search(r"^UNPROVED\s*=\s*(\[.*?\n\]|\[.*?\])", src, flags=re.M | re.S)
    if not m:
        return []
    try:
        return [u for u in eval(m.group(1), {}) if isinstance(u, str)]
    except Exception:  # noqa: BLE001
        return ["(see UNPROVED in harness/props/%s.py)" % pid.lower()]


def table():
    cnt = theorem_counts()
    out = []
    for i in range(1, 21):
        pid = "C%02d" % i
        c = manifest_gen.CHECKS[pid]
        files = cnt.get(pid, [])
        n = sum(k for _, k in files)
        out.append("### %s — %d theorems in %s\n" % (pid, n, ", ".join("`%s`" % a for a, _ in files)))
        out.append("*Proved / decided.* " + c["text"] + "\n")
        out.append("*Assumed / not proved.* " + c["note"] + "\n")
        u = unproved(pid)
        if u:
            out.append("*Unproved sub-claims listed in the evidence:* " + "; ".join(u) + "\n")
    return "\n".join(out)


def findings():
    k = json.load(open(os.path.join(V, "known_findings.json")))["findings"]
    rows = ["| property | site | status | what |", "|---|---|---|---|"]
    seen = set()
    for f in k:
        if not re.match(r"^C\d\d$", f["property"]):
            continue
        key = (f["property"], f["site"], f["region"])
        if key in seen:
            continue
        seen.add(key)
        st = f.get("status", "known")
        what = f.get("fixed") if st == "fixed" and f.get("fixed") else f["what"]
        rows.append("| %s | `%s` | %s | %s |" % (f["property"], f["site"], st, str(what).replace("|", "/").replace("\n", " ")))
    return "\n".join(rows)


def seeded():
    rows = ["| id | what was changed | needs | check result |", "|---|---|---|---|"]
    for d in sorted(glob.glob(os.path.join(V, "seeded/*/meta.json"))):
        m = json.load(open(d))
        sid = os.path.basename(os.path.dirname(d))
        res = []
        for c, v in (m.get("verif", {}).get("checks") or {}).items():
            r = "caught" if v["exit"] == 1 else ("MISSED" if v["exit"] == 0 else "tool error")
            if "no-failing-input-found" in v.get("line", ""):
                r += " (no failing input: broken obligation/correspondence)"
            res.append("%s: %s" % (c, r))
        rows.append("| %s | %s | %s | %s |" % (sid, str(m.get("what", "")).replace("|", "/"),
                                              str(m.get("needs", "")).replace("|", "/"), "; ".join(res)))
    return "\n".join(rows)


def neutral():
    rows = ["| id | what | result over the 20 checks |", "|---|---|---|"]
    for d in sorted(glob.glob(os.path.join(V, "neutral/*/meta.json"))):
        m = json.load(open(d))
        nid = os.path.basename(os.path.dirname(d))
        res = m.get("verif") or {}
        bad = {k: v for k, v in res.items() if v != "ok"}
        txt = ("all 20 OK" if res and not bad else ", ".join("%s: %s" % kv for kv in sorted(bad.items()))) if res else "not run"
        rows.append("| %s | %s | %s |" % (nid, str(m.get("what", "")).replace("|", "/"), txt))
    return "\n".join(rows)


def main():
    p1 = open(os.path.join(V, "DESIGN_PART1.md")).read()
    p1 = p1.replace("@@TABLE@@", table()).replace("@@FINDINGS@@", findings()).replace("@@SEEDED@@", seeded()).replace("@@NEUTRAL@@", neutral())
    p2 = open(os.path.join(V, "docs", "DESIGN_PART2.md")).read()
    with open(os.path.join(V, "DESIGN.md"), "w") as fh:
        fh.write(p1.rstrip("\n") + "\n\n---------------------------------------------------------------------------------------\n\n" + p2)


if __name__ == "__main__":
    main()
