#!/usr/bin/env python3
"""Source mutations / harmless rewrites of mir_eval/io.py tried against C20 (translator part `ioload`, docs/notes_iotr.md).

For each entry: scratch copy of /repo under /tmp, textual replacement in mir_eval/io.py, the repository's own tests
(the set that passes on the unchanged tree must still pass), `./check C20 --tier quick` pointed at the copy; prints the
verdict line, the broken obligations and (for a failing input) what failed.  Afterwards lean/MirGen is restored.

    python3 tools/ioload_mutations.py [name ...]
"""
import json
import os
import shutil
import subprocess
import sys

V = os.path.dirname(os.path.dirname(os.path.abspath(__file__)))
PY = "/venv/bin/python"

# (name, kind, [(old, new, count)])   kind: "mutation" (expected: broken obligation + failing input) | "neutral"
ENTRIES = [
    ("enumerate_from_0", "mutation", [("for row, line in enumerate(input_file, 1):", "for row, line in enumerate(input_file, 0):", 1)]),
    ("maxsplit_n_columns", "mutation", [("splitter.split(line.strip(), n_columns - 1)", "splitter.split(line.strip(), n_columns)", 1)]),
    ("rstrip", "mutation", [("data = splitter.split(line.strip(), n_columns - 1)", "data = splitter.split(line.rstrip(), n_columns - 1)", 1)]),
    ("search_for_match", "mutation", [("            if comment is not None and commenter.match(line):\n                continue\n\n            # Split each line using the supplied delimiter\n            data = splitter.split(line.strip(), n_columns - 1)",
                                       "            if comment is not None and commenter.search(line):\n                continue\n\n            # Split each line using the supplied delimiter\n            data = splitter.split(line.strip(), n_columns - 1)", 1)]),
    ("always_return_columns", "mutation", [("    if n_columns == 1:\n        return columns[0]\n    else:\n        return columns", "    return columns", 1)]),
    ("swapped_delimiter_comment", "mutation", [("    starts, ends = load_delimited(\n        filename, [float, float], delimiter=delimiter, comment=comment\n    )",
                                                "    starts, ends = load_delimited(\n        filename, [float, float], comment, delimiter\n    )", 1)]),
    ("labeled_events_float_float", "mutation", [("filename, [float, str], delimiter=delimiter, comment=comment", "filename, [float, float], delimiter=delimiter, comment=comment", 1)]),
    ("tempo_weight_strict", "mutation", [("if not 0 <= weight <= 1:", "if not 0 <= weight <= 2:", 1)]),
    ("ragged_header_row_from_0", "mutation", [("    if header:\n        start_row = 1\n    else:\n        start_row = 0", "    start_row = 0", 1)]),
    ("patterns_occurrence_not_flushed", "mutation", [("            if \"occurrence\" in line:\n                if occurrence != []:\n                    pattern.append(occurrence)\n                occurrence = []",
                                                      "            if \"occurrence\" in line:\n                if occurrence != [] and pattern != []:\n                    pattern.append(occurrence)\n                occurrence = []", 1)]),
    # behaviour-preserving rewrites
    ("n_renamed_locals", "neutral", [("n_columns", "ncols", 0), ("converted_value", "cv", 0), ("splitter", "delim_re", 0), ("commenter", "comment_re", 0)]),
    ("n_len_data_first", "neutral", [("if n_columns != len(data):", "if len(data) != n_columns:", 1)]),
    # observable: the documented "tuple of lists" becomes a list of lists (Gen = model still holds: tuple vs list is not modelled)
    ("list_instead_of_tuple", "mutation", [("columns = tuple(list() for _ in range(n_columns))", "columns = [[] for _ in range(n_columns)]", 1)]),
    ("n_list_comprehension", "neutral", [("columns = tuple(list() for _ in range(n_columns))", "columns = tuple([[] for _ in range(n_columns)])", 1)]),
    ("n_reordered_statements", "neutral", [("    # Create re object for splitting lines\n    splitter = re.compile(delimiter)\n\n    # And one for comments\n    if comment is None:\n        commenter = None\n    else:\n        commenter = re.compile(\"^{}\".format(comment))\n\n    # Note: we do io",
                                            "    if comment is None:\n        commenter = None\n    else:\n        commenter = re.compile(\"^\" + comment)\n    splitter = re.compile(delimiter)\n\n    # Note: we do io", 1)]),
    ("n_equals_one_swapped", "neutral", [("    if n_columns == 1:\n        return columns[0]\n    else:\n        return columns", "    if 1 != n_columns:\n        return columns\n    return columns[0]", 1)]),
]


def sh(cmd, **kw):
    return subprocess.run(cmd, shell=True, stdout=subprocess.PIPE, stderr=subprocess.STDOUT, text=True, **kw)


def passing_tests(repo):
    r = sh("cd %s && %s -m pytest -q -p no:cacheprovider --continue-on-collection-errors -rA tests 2>&1 | grep -E '^(PASSED|XPASS)'" % (repo, PY),
           env=dict(os.environ, PYTHONPATH=repo))
    return set(r.stdout.strip().split("\n"))


def run(name, kind, repl, base_pass):
    scratch = "/tmp/iotr_mut_%s" % name
    shutil.rmtree(scratch, ignore_errors=True)
    sh("rsync -a --exclude .git /repo/ %s/" % scratch)
    p = os.path.join(scratch, "mir_eval", "io.py")
    src = open(p).read()
    for old, new, count in repl:
        n = src.count(old)
        if n == 0 or (count and n < count):
            print("  !! pattern not found: %r" % old[:50])
            return
        src = src.replace(old, new, count) if count else src.replace(old, new)
    open(p, "w").write(src)
    lost = base_pass - passing_tests(scratch)
    env = dict(os.environ, MIR_EVAL_REPO=scratch, VERIF_REPLAY_DIR="/tmp/iotr_replays", VERIF_EVIDENCE_DIR="/tmp/iotr_evidence")
    r = sh("cd %s && ./check C20 --tier quick" % V, env=env)
    verdict = [ln for ln in r.stdout.split("\n") if ln.startswith(("OK ", "VIOLATION", "TOOL-ERROR"))]
    broken = [ln.strip() for ln in r.stdout.split("\n") if "broken:" in ln]
    dis = [ln.strip() for ln in r.stdout.split("\n") if "correspondence:" in ln]
    print("%-32s [%s] tests lost: %d" % (name, kind, len(lost)))
    print("   " + (verdict[-1] if verdict else "?? " + r.stdout[-300:]))
    for b in broken[:4]:
        print("   " + b[:230])
    for d in dis:
        print("   " + d)
    if verdict and verdict[-1].startswith("VIOLATION") and "no-failing-input-found" not in verdict[-1]:
        rp = verdict[-1].split("replay=")[1].split()[0]
        v = json.load(open(os.path.join(V, rp) if not os.path.isabs(rp) else rp))
        print("   failing input at %s: %s" % (v["site"], v["what"][:260]))
        print("   input: %s" % json.dumps(v["input"])[:260])
    shutil.rmtree(scratch, ignore_errors=True)


if __name__ == "__main__":
    want = sys.argv[1:]
    base = passing_tests("/repo")
    print("tests passing on the unchanged tree: %d" % len(base))
    try:
        for name, kind, repl in ENTRIES:
            if not want or name in want:
                run(name, kind, repl, base)
    finally:
        sh("cd %s && python3 tools/restore_gen.py" % V)
