#!/bin/bash
# usage: merge.sh <agent>   — copy files that are new or changed in /tmp/ag_<agent>/verif (vs the snapshot it started from is unknown,
# so: copy files that do not exist in /verif; list files that exist in both and differ, for manual merge)
A=/tmp/ag_$1/verif
cd $A
find . -type f \( -path ./lean/.lake -prune -o -path './.work/*' -prune -o -name '*.pyc' -prune -o -path './evidence/*' -prune -o -path './replays/*' -prune -o -print \) | grep -v "^./lean/.lake\|__pycache__" | sort | while read f; do
  if [ ! -e /verif/$f ]; then mkdir -p /verif/$(dirname $f); cp $f /verif/$f; echo "NEW  $f";
  elif ! cmp -s $f /verif/$f; then echo "DIFF $f"; fi
done
