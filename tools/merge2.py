"""merge2.py <agent> <Handler1,Handler2> <Model.Import1,Model.Import2> [GenImport1,...]"""
import sys, subprocess, json, re
a=sys.argv[1]; handlers=[h for h in sys.argv[2].split(',') if h]; imports=[i for i in sys.argv[3].split(',') if i]
gens=[g for g in (sys.argv[4].split(',') if len(sys.argv)>4 else []) if g]
print(subprocess.run(['/verif/.work/merge.sh',a],capture_output=True,text=True).stdout)
p='/verif/lean/Main.lean'; s=open(p).read()
m=re.search(r'def handlers : List Handler := \[(.*?)\]',s,re.S)
cur=[x.strip() for x in m.group(1).split(',')]
for h in handlers:
    if h+'.handler' not in cur: cur.append(h+'.handler')
s=s[:m.start()]+'def handlers : List Handler := ['+', '.join(cur)+']'+s[m.end():]
open(p,'w').write(s)
p='/verif/lean/MirModel.lean'; s=open(p).read()
for i in imports:
    if 'import MirModel.%s\n'%i not in s: s+='import MirModel.%s\n'%i
open(p,'w').write(s)
p='/verif/lean/MirGen.lean'; s=open(p).read()
for g in gens:
    if 'import MirGen.%s\n'%g not in s: s+='import MirGen.%s\n'%g
open(p,'w').write(s)
print(subprocess.run(['python3','/verif/.work/merge_kf.py',a],capture_output=True,text=True).stdout)
