#!/usr/bin/env python3
"""merge_followup.py <slice>: three-way merge of /tmp/ag2_<slice>/verif into /verif.
base = the /verif commit the copy was taken from (BASE env or the commit tagged followup-base)."""
import json, os, subprocess, sys, filecmp, shutil
sl = sys.argv[1]
A = '/tmp/ag2_%s/verif' % sl
V = '/verif'
BASE = os.environ.get('BASE', 'followup-base')
skip_dirs = ('lean/.lake', 'evidence', 'replays', '.work', '.git')
skip_files = {'known_findings.json', 'MANIFEST.json', 'DESIGN.md', 'DESIGN_PART1.md', 'README.md'}
def base_content(rel):
    r = subprocess.run(['git', '-C', V, 'show', '%s:%s' % (BASE, rel)], capture_output=True)
    return r.stdout if r.returncode == 0 else None
changed = []
for root, dirs, files in os.walk(A):
    rel_root = os.path.relpath(root, A)
    if any(rel_root == d or rel_root.startswith(d + '/') for d in skip_dirs) or '__pycache__' in rel_root:
        dirs[:] = []
        continue
    for f in files:
        rel = os.path.normpath(os.path.join(rel_root, f))
        if rel in skip_files or f.endswith('.pyc'):
            continue
        a = open(os.path.join(A, rel), 'rb').read()
        b = base_content(rel)
        if b is not None and a == b:
            continue            # agent did not touch it
        cur = open(os.path.join(V, rel), 'rb').read() if os.path.exists(os.path.join(V, rel)) else None
        if cur == a:
            continue
        if cur is not None and b is not None and cur != b:
            print('CONFLICT (both changed):', rel)
            continue
        os.makedirs(os.path.dirname(os.path.join(V, rel)), exist_ok=True)
        shutil.copy(os.path.join(A, rel), os.path.join(V, rel))
        changed.append(rel)
# deletions
for rel in subprocess.run(['git', '-C', V, 'ls-tree', '-r', '--name-only', BASE], capture_output=True, text=True).stdout.split('\n'):
    if rel and not any(rel.startswith(d + '/') for d in skip_dirs) and rel not in skip_files:
        if not os.path.exists(os.path.join(A, rel)) and os.path.exists(os.path.join(V, rel)):
            os.remove(os.path.join(V, rel)); changed.append('DELETED ' + rel)
print('\n'.join(changed))
# known findings, entry-wise
key = lambda f: (f['property'], f['site'], f['region'])
base = {key(f): f for f in json.loads(base_content('known_findings.json'))['findings']}
ag = {key(f): f for f in json.load(open(A + '/known_findings.json'))['findings']}
cur = json.load(open(V + '/known_findings.json'))
out, n = [], 0
for f in cur['findings']:
    k = key(f)
    if k in base and k not in ag:
        n += 1; continue                      # agent deleted it
    if k in ag and (k not in base or ag[k] != base[k]):
        out.append(ag[k]); n += 1; continue   # agent changed it
    out.append(f)
have = {key(f) for f in out}
for k, f in ag.items():
    if k not in base and k not in have:
        out.append(f); n += 1
cur['findings'] = out
json.dump(cur, open(V + '/known_findings.json', 'w'), indent=1)
print('known_findings entries changed:', n)
