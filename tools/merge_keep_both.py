#!/usr/bin/env python3
"""Resolve 'both branches appended a line at the same place' conflicts (PARTS, imports, genHandlers, DESIGN bullets):
keep HEAD's lines, then the other branch's.  In lean/Main.lean's handler list the entries are comma-separated."""
import re, subprocess, sys
files = subprocess.run(["git", "diff", "--name-only", "--diff-filter=U"], capture_output=True, text=True).stdout.split()
for f in files:
    s = open(f).read()
    def both(m):
        ours, theirs = m.group(1), m.group(2)
        if f.endswith("Main.lean") and not ours.rstrip().endswith(","):
            ours = ours.rstrip("\n") + ",\n"
        return ours + theirs
    s2 = re.sub(r"<<<<<<< [^\n]*\n(.*?)=======\n(.*?)>>>>>>> [^\n]*\n", both, s, flags=re.S)
    open(f, "w").write(s2)
    print("resolved", f, s.count("<<<<<<<"))
