"""merge known findings + regions of an agent copy into /verif"""
import json, sys, re
a=sys.argv[1]
A='/tmp/ag_%s/verif'%a
k=json.load(open('/verif/known_findings.json'))
ka=json.load(open(A+'/known_findings.json'))
have={(f['property'],f['site'],f['region']) for f in k['findings']}
n=0
for f in ka['findings']:
    if (f['property'],f['site'],f['region']) not in have:
        k['findings'].append(f); n+=1
json.dump(k,open('/verif/known_findings.json','w'),indent=1)
# regions: append region functions not present
src=open(A+'/harness/regions.py').read()
mine=open('/verif/harness/regions.py').read()
blocks=re.split(r'(?=^@region\()',src,flags=re.M)
added=[]
for b in blocks[1:]:
    name=re.match(r'@region\("([^"]+)"\)',b).group(1)
    if '@region("%s")'%name not in mine:
        # make the signature two-argument
        b=re.sub(r'^(def \w+)\((\w+)\):',r'\1(\2, what=""):',b,flags=re.M)
        mine=mine.rstrip('\n')+'\n\n\n'+b.rstrip('\n')+'\n'
        added.append(name)
open('/verif/harness/regions.py','w').write(mine)
print('findings added',n,'regions added',added)
