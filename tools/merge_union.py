#!/usr/bin/env python3
"""Resolve 'both sides appended' merge conflicts of the builder branches: keep both sides (ours first).  In
harness/translate/__init__.py the one-line PARTS list of the other side is turned into `PARTS += [new items]`."""
import re, subprocess, sys
files = subprocess.run(["git", "diff", "--name-only", "--diff-filter=U"], capture_output=True, text=True).stdout.split()
BASE = ["tables", "signatures", "evalprogs", "effects", "regex", "scalars", "scalars_key", "scalars_chord", "defaults"]
for f in files:
    if f in ("MANIFEST.json", "DESIGN.md") or f.startswith("evidence/"):
        subprocess.run(["git", "checkout", "--ours", f]); subprocess.run(["git", "add", f]); continue
    s = open(f).read()
    def repl(m):
        ours, theirs = m.group(1), m.group(2)
        if f.endswith("translate/__init__.py"):
            have = set(re.findall(r'"(\w+)"', ours))
            new = [x for x in re.findall(r'"(\w+)"', theirs) if x not in have and x not in BASE]
            return ours + "".join('PARTS += ["%s"]\n' % x for x in new)
        keep = [l for l in theirs.splitlines(keepends=True) if l not in ours.splitlines(keepends=True)]
        return ours + "".join(keep)
    s2 = re.sub(r"<<<<<<< [^\n]*\n(.*?)=======\n(.*?)>>>>>>> [^\n]*\n", repl, s, flags=re.S)
    open(f, "w").write(s2)
    subprocess.run(["git", "add", f])
    print("resolved", f)
