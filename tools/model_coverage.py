#!/venv/bin/python
"""Measure which statements / functions of /repo's mir_eval are executed by the *compared* side of the
correspondence (the `call` of every Case of every property's SUITES, quick tier) and, separately,
by the property oracles.  Output: docs/COVERAGE.md + docs/coverage.json.

This is a measurement for the trusted-base statement ("exactly which parts of the code are modelled"), not a
check: a function that no compared case ever enters has no model tied to it.

usage: PYTHONPATH=/verif/harness:/repo /venv/bin/python tools/model_coverage.py [--cap N]
"""
import ast
import importlib
import json
import os
import random
import sys
import time
import warnings

ROOT = os.path.dirname(os.path.dirname(os.path.abspath(__file__)))
sys.path.insert(0, os.path.join(ROOT, "harness"))
REPO = os.environ.get("MIR_EVAL_REPO", "/repo")
sys.path.insert(0, REPO)
os.environ.setdefault("MIR_EVAL_VERIF", "1")
warnings.simplefilter("ignore")

import coverage  # noqa: E402

CAP = 400
NSH = 8
if "--cap" in sys.argv:
    CAP = int(sys.argv[sys.argv.index("--cap") + 1])


def functions(path):
    """[(qualname, first_line, last_line, body_lines)] of every def in the file (nested defs included)"""
    tree = ast.parse(open(path).read())
    out = []

    def walk(node, prefix):
        for n in ast.iter_child_nodes(node):
            if isinstance(n, (ast.FunctionDef, ast.AsyncFunctionDef)):
                body = n.body
                first = body[0]
                # skip the docstring
                if (isinstance(first, ast.Expr) and isinstance(getattr(first, "value", None), ast.Constant)
                        and isinstance(first.value.value, str)):
                    body = body[1:]
                lines = set()
                for b in body:
                    for s in ast.walk(b):
                        if isinstance(s, ast.stmt):
                            lines.add(s.lineno)
                out.append((prefix + n.name, n.lineno, n.end_lineno, lines))
                walk(n, prefix + n.name + ".")
            elif isinstance(n, ast.ClassDef):
                walk(n, prefix + n.name + ".")
    walk(tree, "")
    return out


def _docstring_lines(path, a, b):
    return set()


def main():
    import core
    core.ensure_repo_import()
    pkg = os.path.join(os.path.realpath(REPO), "mir_eval")
    cov = coverage.Coverage(data_file=None, include=[os.path.join(pkg, "*")], branch=False)
    per_prop = {}
    t0 = time.time()
    seen_suites = set()
    ncases = 0
    for k in range(1, 21):
        modname = "props.c%02d" % k
        mod = importlib.import_module(modname)
        suites = getattr(mod, "SUITES", {})
        n_here = 0
        for sname, gen in sorted(suites.items()):
            key = id(gen)
            if key in seen_suites:
                continue
            seen_suites.add(key)
            for shard in range(NSH):
                rng = random.Random(core.derive_seed(0, mod.PID, sname, shard))
                try:
                    it = gen(rng, "quick", shard, NSH)
                    cov.start()
                    try:
                        for i, c in enumerate(it):
                            if i >= CAP:
                                break
                            try:
                                c.call()
                            except BaseException:
                                pass
                            n_here += 1
                    finally:
                        cov.stop()
                except Exception as e:  # generator problem: report, do not hide
                    sys.stderr.write("suite %s.%s: %r\n" % (modname, sname, e))
        per_prop[mod.PID] = n_here
        ncases += n_here
        sys.stderr.write("%s: %d compared calls (%.0fs)\n" % (mod.PID, n_here, time.time() - t0))
    data = cov.get_data()
    rows, never, partial = [], [], []
    tot_s = tot_h = 0
    for fn in sorted(os.listdir(pkg)):
        if not fn.endswith(".py"):
            continue
        path = os.path.join(pkg, fn)
        _, executable, _, missing, _ = cov.analysis2(path)
        executable, missing = set(executable), set(missing)
        hit = executable - missing
        # coverage.py's own statement table (multi-line statements are attributed correctly); restricted to
        # function bodies below (module-level statements run at import time)
        fs = [(q, a, b, (set(range(a + 1, b + 1)) & executable) - _docstring_lines(path, a, b))
              for q, a, b, _ in functions(path)]
        # a nested def's lines belong to the nested function only
        for i, (q, a, b, lines) in enumerate(fs):
            for q2, a2, b2, _ in fs:
                if q2 != q and q2.startswith(q + "."):
                    lines = lines - set(range(a2 + 1, b2 + 1))
            fs[i] = (q, a, b, lines)
        stm = set()
        for q, a, b, lines in fs:
            stm |= lines
        h = len(stm & hit)
        tot_s += len(stm)
        tot_h += h
        n_never = 0
        for q, a, b, lines in fs:
            if not lines:
                continue
            hh = len(lines & hit)
            name = "%s.%s" % (fn[:-3], q)
            if hh == 0:
                never.append(name)
                n_never += 1
            elif hh < len(lines):
                missing = sorted(lines - hit)
                partial.append((name, hh, len(lines), missing))
        rows.append((fn, len(fs), n_never, h, len(stm)))
    out = {"cap_per_suite": CAP, "compared_calls": ncases, "per_property_calls": per_prop,
           "statements_in_function_bodies": tot_s, "statements_hit": tot_h,
           "modules": [{"file": r[0], "functions": r[1], "never_entered": r[2], "hit": r[3], "statements": r[4]}
                       for r in rows],
           "never_entered": never,
           "partially_covered": [{"function": p[0], "hit": p[1], "statements": p[2], "missing_lines": p[3]}
                                 for p in partial]}
    os.makedirs(os.path.join(ROOT, "docs"), exist_ok=True)
    json.dump(out, open(os.path.join(ROOT, "docs", "coverage.json"), "w"), indent=1, sort_keys=True)
    md = ["# Which code the compared side of the correspondence executes",
          "",
          "Measured by `tools/model_coverage.py` (coverage.py over `mir_eval/*`, the `call` of every correspondence",
          "case of every property, quick tier, all 8 shards, at most %d cases per suite and shard: %d compared calls)." % (CAP, ncases),
          "A statement counted here is executed while its result is being compared with the Lean model (or, for the",
          "validators and C14/C15 suites, classified against the model's verdict).  Statements *not* listed as hit are the",
          "part of the code that is outside the model; they are reached, if at all, only by the property oracles.",
          "",
          "| file | functions | never entered | statements hit / in function bodies |",
          "|---|---|---|---|"]
    for r in rows:
        md.append("| %s | %d | %d | %d / %d (%.0f%%) |" % (r[0], r[1], r[2], r[3], r[4], 100.0 * r[3] / max(1, r[4])))
    md.append("| **total** | | %d | %d / %d (%.0f%%) |" % (len(never), tot_h, tot_s, 100.0 * tot_h / max(1, tot_s)))
    md += ["", "## Functions no compared case enters", ""]
    md.append(", ".join("`%s`" % n for n in never) or "(none)")
    md += ["", "## Functions entered but with statements never executed by a compared case", ""]
    for p in partial:
        md.append("* `%s`: %d/%d, missing lines %s" % (p[0], p[1], p[2], ", ".join(map(str, p[3][:25]))
                                                       + (" …" if len(p[3]) > 25 else "")))
    open(os.path.join(ROOT, "docs", "COVERAGE.md"), "w").write("\n".join(md) + "\n")
    print("statements hit %d / %d; never-entered functions: %d" % (tot_h, tot_s, len(never)))


if __name__ == "__main__":
    main()
