#!/usr/bin/env python3
"""Behaviour-preserving refactorings (neutral/<id>/patch.diff): run every check against a scratch copy of /repo with
the patch applied and record which checks stay OK (no alarm), which report `no-failing-input-found` (a proof obligation
or the model/code correspondence broke although the property still holds — allowed by the brief, reported as such) and
which report a failing input (that would be a FALSE ALARM and a defect of the machinery)."""
import json, os, shutil, subprocess, sys, tempfile
V = os.path.dirname(os.path.dirname(os.path.abspath(__file__)))
ids = sys.argv[1:] or sorted(os.listdir(os.path.join(V, "neutral")))
checks = ["C%02d" % i for i in range(1, 21)]
for nid in ids:
    d = os.path.join(V, "neutral", nid)
    meta = json.load(open(os.path.join(d, "meta.json")))
    scratch = tempfile.mkdtemp(prefix="neutral_", dir="/tmp")
    try:
        subprocess.run("rsync -a --exclude .git --exclude mutants --exclude neutral /repo/ %s/" % scratch, shell=True, check=True)
        r = subprocess.run("cd %s && patch -p1 --no-backup-if-mismatch < %s" % (scratch, os.path.join(d, "patch.diff")),
                           shell=True, capture_output=True, text=True)
        if r.returncode != 0:
            print(nid, "PATCH FAILED"); continue
        res = {}
        for c in checks:
            env = dict(os.environ, MIR_EVAL_REPO=scratch, VERIF_EVIDENCE_DIR=os.path.join(V, ".work", "neutral_ev"),
                       VERIF_REPLAY_DIR=os.path.join(".work", "neutral_ev"))
            p = subprocess.run([os.path.join(V, "check"), c], env=env, capture_output=True, text=True)
            line = [l for l in p.stdout.split("\n") if l.startswith(("OK", "VIOLATION", "TOOL-ERROR"))]
            line = line[-1] if line else ""
            res[c] = "ok" if p.returncode == 0 else ("no-failing-input-found" if "no-failing-input-found" in line
                                                     else ("FAILING-INPUT" if p.returncode == 1 else "tool-error"))
        meta["verif"] = res
        json.dump(meta, open(os.path.join(d, "meta.json"), "w"), indent=1)
        print(nid, {k: v for k, v in res.items() if v != "ok"} or "all 20 checks OK")
    finally:
        shutil.rmtree(scratch, ignore_errors=True)
sys.path.insert(0, os.path.join(V, "tools"))
import restore_gen
restore_gen.restore()      # lean/MirGen back to what the unchanged /repo generates
