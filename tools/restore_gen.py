#!/usr/bin/env python3
"""Regenerate lean/MirGen from /repo's working tree (the committed generated files must be those of the unchanged
tree: `cd lean && lake build` is MANIFEST.setup_cmd).  Run after any check that was pointed at another copy of the
library (MIR_EVAL_REPO=...); seed_eval.py / neutral_eval.py call it when they finish.  `--verify` exits 1 if the
files on disk differ from what /repo generates (use before committing)."""
import os, subprocess, sys
V = os.path.dirname(os.path.dirname(os.path.abspath(__file__)))


def restore(repo="/repo"):
    env = dict(os.environ, PYTHONPATH="%s:%s/harness" % (repo, V), PYTHONDONTWRITEBYTECODE="1", PYTHONHASHSEED="0")
    code = ("import translate; o, p = translate.regenerate(%r, %r); "
            "import sys; sys.exit(3 if p else 0)" % (repo, os.path.join(V, "lean", "MirGen")))
    return subprocess.run(["/venv/bin/python", "-c", code], env=env).returncode


if __name__ == "__main__":
    rc = restore()
    if rc:
        print("translator reported problems on /repo (rc=%d)" % rc)
        sys.exit(rc)
    if "--verify" in sys.argv:
        r = subprocess.run(["git", "-C", V, "status", "--porcelain", "lean/MirGen"], capture_output=True, text=True)
        if r.stdout.strip():
            print("lean/MirGen differs from the committed files:\n" + r.stdout)
            sys.exit(1)
        print("lean/MirGen is what /repo generates and is committed")
