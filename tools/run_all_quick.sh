#!/bin/bash
# run every property's quick check against /repo (evidence/<id>.json is rewritten by each), two at a time; prints the verdict lines
cd "$(dirname "$0")/.."
run() { ./check "$1" --tier quick 2>&1 | grep '^OK\|^VIOLATION\|^TOOL-ERROR\|^KNOWN-FINDING' | cut -c1-160 | sed "s/^/[$1] /"; }
export -f run
printf 'C%02d\n' $(seq 1 20) | xargs -P "${PAR:-2}" -I{} bash -c 'run {}'
