#!/usr/bin/env python3
"""Evaluate seeded changes against the checks.

  tools/seed_eval.py import <worktree> <PID> [<prefix>]    copy <worktree>/mutants/m*/ into seeded/<PID>_<prefix>m*/
  tools/seed_eval.py run <seeded-id> ... | all  [--checks C01,C05] [--tests]

For every seeded change: apply patch.diff to a scratch copy of /repo (outside /repo and /verif, removed
afterwards), confirm demo.py fails with the change and passes without it, optionally run the 66-test baseline,
run the property's check (and any extra checks) with MIR_EVAL_REPO pointing at the scratch copy, and record the
outcome in seeded/<id>/meta.json ("verif": {...}).  Evidence / replays of these runs go to .work/seed_ev/.
"""
import json
import os
import shutil
import subprocess
import sys
import tempfile

VERIF = os.path.dirname(os.path.dirname(os.path.abspath(__file__)))
REPO = "/repo"
# the checkout whose ./check is run (default: this one).  Point SEED_CHECK_DIR at a separate worktree of /verif so that
# evaluations against scratch copies (which regenerate lean/MirGen for the CHANGED source) never touch the main tree
CHECK_DIR = os.environ.get("SEED_CHECK_DIR", VERIF)
PY = "/venv/bin/python"


def sh(cmd, **kw):
    return subprocess.run(cmd, shell=True, stdout=subprocess.PIPE, stderr=subprocess.STDOUT, text=True, **kw)


def do_import(wt, pid, prefix=""):
    mdir = os.path.join(wt, "mutants")
    for m in sorted(os.listdir(mdir)):
        if not os.path.isdir(os.path.join(mdir, m)) or not os.path.exists(os.path.join(mdir, m, "patch.diff")):
            continue
        dst = os.path.join(VERIF, "seeded", "%s_%s%s" % (pid, prefix, m))
        os.makedirs(dst, exist_ok=True)
        for f in ("patch.diff", "demo.py", "meta.json"):
            shutil.copy(os.path.join(mdir, m, f), os.path.join(dst, f))
        for f in os.listdir(mdir):      # helper modules shared by the demos
            if f.endswith(".py") and os.path.isfile(os.path.join(mdir, f)):
                shutil.copy(os.path.join(mdir, f), os.path.join(dst, f))
        print("imported", dst)


_BASE = {}


def _pytest_summary(repo):
    """final summary line of the pinned suite (the command of /root/.vp/BASELINE.json) without the wall time"""
    r = sh("cd %s && %s -m pytest -q -p no:cacheprovider --timeout=900 --continue-on-collection-errors 2>&1 | tail -1"
           % (repo, PY), env=dict(os.environ, PYTHONPATH=repo))
    return r.stdout.strip().split(" in ")[0].strip("= ")


def baseline_tests(repo):
    """the whole pinned suite on the changed copy; 'same as /repo' when the pass/fail/xfail/xpass counts agree"""
    if "repo" not in _BASE:
        _BASE["repo"] = _pytest_summary(REPO)
    got = _pytest_summary(repo)
    return ("same as /repo: " if got == _BASE["repo"] else "DIFFERS from /repo (%s): " % _BASE["repo"]) + got


def run_one(sid, extra_checks, with_tests):
    d = os.path.join(VERIF, "seeded", sid)
    meta = json.load(open(os.path.join(d, "meta.json")))
    pid = meta["property"]
    scratch = tempfile.mkdtemp(prefix="seed_", dir="/tmp")
    try:
        sh("rsync -a --exclude .git --exclude mutants %s/ %s/" % (REPO, scratch))
        r = sh("cd %s && patch -p1 --no-backup-if-mismatch < %s" % (scratch, os.path.join(d, "patch.diff")))
        if r.returncode != 0 and os.path.exists(os.path.join(d, "patch_repaired_tree.diff")):
            # the change was written against the pre-fix tree and touches a line a fix: commit rewrote:
            # the same change ported to the repaired tree
            sh("rsync -a --delete --exclude .git --exclude mutants %s/ %s/" % (REPO, scratch))
            r = sh("cd %s && patch -p1 --no-backup-if-mismatch < %s" % (scratch, os.path.join(d, "patch_repaired_tree.diff")))
            meta["applied"] = "patch_repaired_tree.diff"
        if r.returncode != 0:
            print(sid, "PATCH FAILED", r.stdout[-300:])
            return
        demo = os.path.join(d, "demo.py")
        thr = {"OMP_NUM_THREADS": "1", "OPENBLAS_NUM_THREADS": "1", "MKL_NUM_THREADS": "1"}
        env_m = dict(os.environ, PYTHONPATH=scratch, **thr)
        env_c = dict(os.environ, PYTHONPATH=REPO, **thr)
        rm = subprocess.run([PY, demo], cwd=scratch, env=env_m, stdout=subprocess.PIPE, stderr=subprocess.STDOUT, text=True)
        rc = subprocess.run([PY, demo], cwd=REPO, env=env_c, stdout=subprocess.PIPE, stderr=subprocess.STDOUT, text=True)
        res = {"demo_with_change_exit": rm.returncode, "demo_without_change_exit": rc.returncode}
        if with_tests:
            res["baseline_with_change"] = baseline_tests(scratch)
        checks = [pid] + [c for c in extra_checks if c != pid]
        res["checks"] = {}
        for c in checks:
            env = dict(os.environ, MIR_EVAL_REPO=scratch, VERIF_EVIDENCE_DIR=os.path.join(CHECK_DIR, ".work", "seed_ev"),
                       VERIF_REPLAY_DIR=os.path.join(".work", "seed_ev"))
            r = subprocess.run([os.path.join(CHECK_DIR, "check"), c, "--tier", "quick"], env=env, stdout=subprocess.PIPE,
                               stderr=subprocess.PIPE, text=True)
            line = [l for l in r.stdout.split("\n") if l.startswith(("VIOLATION", "OK", "TOOL-ERROR"))]
            what = ""
            if r.returncode == 1 and line:
                rp = line[-1].split("replay=")[1].split()[0]
                try:
                    v = json.load(open(os.path.join(CHECK_DIR, rp)))
                    what = (v.get("what") or v.get("kind") or "")[:300]
                except Exception:  # noqa: BLE001
                    pass
            res["checks"][c] = {"exit": r.returncode, "line": line[-1] if line else "", "what": what}
        meta["verif"] = res
        meta["ran"] = ("patch applied to a scratch copy of /repo; demo.py with/without the change; "
                       "./check <id> --tier quick with MIR_EVAL_REPO=<scratch copy>")
        json.dump(meta, open(os.path.join(d, "meta.json"), "w"), indent=1)
        caught = {c: ("caught" if v["exit"] == 1 else "MISSED" if v["exit"] == 0 else "tool-error") +
                  (" (no-failing-input-found)" if "no-failing-input-found" in v["line"] else "")
                  for c, v in res["checks"].items()}
        print(sid, "demo %d/%d" % (rm.returncode, rc.returncode), res.get("baseline_with_change", ""), caught)
    finally:
        shutil.rmtree(scratch, ignore_errors=True)


def main():
    if len(sys.argv) < 2 or sys.argv[1] not in ("import", "run"):
        print(__doc__)
        sys.exit(0 if len(sys.argv) > 1 and sys.argv[1] in ("-h", "--help") else 2)
    if sys.argv[1] == "import":
        do_import(sys.argv[2], sys.argv[3], sys.argv[4] if len(sys.argv) > 4 else "")
        return
    args = sys.argv[2:]
    extra, tests, ids = [], False, []
    i = 0
    while i < len(args):
        if args[i] == "--checks":
            extra = args[i + 1].split(",")
            i += 2
        elif args[i] == "--tests":
            tests = True
            i += 1
        else:
            ids.append(args[i])
            i += 1
    if ids == ["all"]:
        ids = sorted(os.listdir(os.path.join(VERIF, "seeded")))
    if not ids:
        print("no ids given (use 'all' for every seeded change: > 1 h)")
        sys.exit(2)
    try:
        for sid in ids:
            run_one(sid, extra, tests)
    finally:
        if CHECK_DIR == VERIF:
            sys.path.insert(0, os.path.join(VERIF, "tools"))
            import restore_gen
            restore_gen.restore()      # lean/MirGen back to what the unchanged /repo generates


if __name__ == "__main__":
    main()
